//go:build verif

package unixsocket

import "time"

// SimConn is the simulator-owned transport behind Socket when the Sim field is set
// (the field and the dispatch lines are added by /verif/tools/seamgen in the scratch copy).
type SimConn interface {
	SimSend(b []byte, m Msg) error
	SimRecv(b []byte) (int, Msg, error)
	SimClose() error
	// SimSetDeadline sets the read deadline (which=1), the write deadline (which=2) or both (which=3)
	SimSetDeadline(which int, t time.Time) error
	SimSetPassCred(option int) error
}

// NewSimSocket builds a Socket over a simulated transport.
func NewSimSocket(c SimConn) *Socket {
	return &Socket{Sim: c, sendBuff: make([]byte, oobSize), recvBuff: make([]byte, oobSize)}
}

// Close shadows the promoted net.UnixConn method so that a simulated transport can observe it.
func (s *Socket) Close() error {
	if s.Sim != nil {
		return s.Sim.SimClose()
	}
	return s.UnixConn.Close()
}

// SetDeadline shadows the promoted net.UnixConn method.
func (s *Socket) SetDeadline(t time.Time) error {
	if s.Sim != nil {
		return s.Sim.SimSetDeadline(3, t)
	}
	return s.UnixConn.SetDeadline(t)
}

// SetReadDeadline shadows the promoted net.UnixConn method.
func (s *Socket) SetReadDeadline(t time.Time) error {
	if s.Sim != nil {
		return s.Sim.SimSetDeadline(1, t)
	}
	return s.UnixConn.SetReadDeadline(t)
}

// SetWriteDeadline shadows the promoted net.UnixConn method.
func (s *Socket) SetWriteDeadline(t time.Time) error {
	if s.Sim != nil {
		return s.Sim.SimSetDeadline(2, t)
	}
	return s.UnixConn.SetWriteDeadline(t)
}
