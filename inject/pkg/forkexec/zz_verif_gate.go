//go:build verif && !verifs2

package forkexec

import (
	"syscall"
	"unsafe"
)

// VGateFd is the child gate of world K: when non-zero, the forked child blocks in a raw read(2) on
// this descriptor right after the clone, before any other launch step (in particular before setsid),
// until the simulator writes a byte or closes the other end. It is the only way to hold a *child* at a
// chosen step on a real kernel. The call is spliced in by seamgen after afterForkInChild().
var VGateFd uintptr

var vGateByte byte

//go:nosplit
//go:norace
func vChildGate() {
	if VGateFd != 0 {
		syscall.RawSyscall(syscall.SYS_READ, VGateFd, uintptr(unsafe.Pointer(&vGateByte)), 1)
	}
}
