//go:build verif && verifs2

package forkexec

import (
	"syscall"
	"unsafe"

	"github.com/criyle/go-sandbox/pkg/forkexec/vfork"
	"golang.org/x/sys/unix"
)

// This file exists only in the world-S2 build of the harness (tags verif,verifs2), which never
// forks for real: the wrappers force pointer arguments to the heap (go:uintptrescapes) because an
// actor is parked (and its stack may be moved) between taking the address and the stub kernel
// using it. The world-K build does not redirect forkexec at all.

// ---------------------------------------------------------------------------------------------
// World S2 seam: every raw system call of the launch protocol (parent and child side) is
// redirected by seamgen to the vk* functions below. With no stub kernel installed they are the
// real calls (they stay nosplit/norace so that they remain usable in the forked child); with one
// installed, forkAndExecInChild runs in-process against the stub kernel.
// ---------------------------------------------------------------------------------------------

// VKernel is the stub kernel interface of world S2.
type VKernel interface {
	Raw(trap, a1, a2, a3, a4, a5, a6 uintptr) (r1, r2 uintptr, err syscall.Errno)
	Vfork(trap, a1, a2, a3 uintptr) (r1 uintptr, err syscall.Errno)
	Socketpair() ([2]int, error)
	ForkLock(lock bool)
	Go(f func())
	BeginLaunch(r *Runner, relaunch func(r *Runner))
}

var (
	vkOn bool
	vk   VKernel
)

// VInstallKernel installs (or removes, with nil) the stub kernel.
func VInstallKernel(k VKernel) {
	vk = k
	vkOn = k != nil
}

//go:uintptrescapes
func vkRawSyscall(trap, a1, a2, a3 uintptr) (r1, r2 uintptr, err syscall.Errno) {
	if vkOn {
		return vk.Raw(trap, a1, a2, a3, 0, 0, 0)
	}
	return syscall.RawSyscall(trap, a1, a2, a3)
}

//go:uintptrescapes
func vkRawSyscall6(trap, a1, a2, a3, a4, a5, a6 uintptr) (r1, r2 uintptr, err syscall.Errno) {
	if vkOn {
		return vk.Raw(trap, a1, a2, a3, a4, a5, a6)
	}
	return syscall.RawSyscall6(trap, a1, a2, a3, a4, a5, a6)
}

//go:uintptrescapes
func vkSyscall(trap, a1, a2, a3 uintptr) (r1, r2 uintptr, err syscall.Errno) {
	if vkOn {
		return vk.Raw(trap, a1, a2, a3, 0, 0, 0)
	}
	return syscall.Syscall(trap, a1, a2, a3)
}

//go:uintptrescapes
func vkVfork(trap, a1, a2, a3 uintptr) (r1 uintptr, err syscall.Errno) {
	if vkOn {
		return vk.Vfork(trap, a1, a2, a3)
	}
	return vfork.RawVforkSyscall(trap, a1, a2, a3)
}

func vkSocketpair(domain, typ, proto int) ([2]int, error) {
	if vkOn {
		return vk.Socketpair()
	}
	return syscall.Socketpair(domain, typ, proto)
}

func vkErr(e syscall.Errno) error {
	if e != 0 {
		return e
	}
	return nil
}

func vkClose(fd int) error {
	if vkOn {
		_, _, e := vk.Raw(syscall.SYS_CLOSE, uintptr(fd), 0, 0, 0, 0, 0)
		return vkErr(e)
	}
	return unix.Close(fd)
}

func vkOpen(path string, mode int, perm uint32) (int, error) {
	if vkOn {
		p, _ := syscall.BytePtrFromString(path)
		r, _, e := vk.Raw(syscall.SYS_OPEN, uintptr(unsafe.Pointer(p)), uintptr(mode), uintptr(perm), 0, 0, 0)
		return int(r), vkErr(e)
	}
	return unix.Open(path, mode, perm)
}

func vkWrite(fd int, b []byte) (int, error) {
	if vkOn {
		var p unsafe.Pointer
		if len(b) > 0 {
			p = unsafe.Pointer(&b[0])
		}
		r, _, e := vk.Raw(syscall.SYS_WRITE, uintptr(fd), uintptr(p), uintptr(len(b)), 0, 0, 0)
		return int(r), vkErr(e)
	}
	return unix.Write(fd, b)
}

func vkKill(pid int, sig syscall.Signal) error {
	if vkOn {
		_, _, e := vk.Raw(syscall.SYS_KILL, uintptr(pid), uintptr(sig), 0, 0, 0, 0)
		return vkErr(e)
	}
	return syscall.Kill(pid, sig)
}

func vkWait4(pid int, ws *syscall.WaitStatus, opt int, ru *syscall.Rusage) (int, error) {
	if vkOn {
		r, _, e := vk.Raw(syscall.SYS_WAIT4, uintptr(pid), uintptr(unsafe.Pointer(ws)), uintptr(opt), uintptr(unsafe.Pointer(ru)), 0, 0)
		return int(r), vkErr(e)
	}
	return syscall.Wait4(pid, ws, opt, ru)
}

func vkForkLock() {
	if vkOn {
		vk.ForkLock(true)
		return
	}
	syscall.ForkLock.Lock()
}

func vkForkUnlock() {
	if vkOn {
		vk.ForkLock(false)
		return
	}
	syscall.ForkLock.Unlock()
}

func vkBeforeFork() {
	if !vkOn {
		beforeFork()
	}
}

func vkAfterFork() {
	if !vkOn {
		afterFork()
	}
}

func vkAfterForkInChild() {
	if !vkOn {
		afterForkInChild()
	}
}

func vkGo(f func()) {
	if vkOn {
		vk.Go(f)
		return
	}
	go f()
}

// VChildError mirrors the layout knowledge needed by the stub kernel to decode what the child
// writes on the sync socket.
const VChildErrorSize = unsafe.Sizeof(ChildError{})
