//go:build verif

package forkexec

// VPrepareExec runs the argument preparation of the real Start (so that a stub process table
// fails, or panics, on malformed argument lists exactly where the real launch would).
func VPrepareExec(args, env []string) error {
	_, _, _, err := prepareExec(args, env)
	return err
}
