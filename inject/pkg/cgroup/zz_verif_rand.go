//go:build verif

package cgroup

import "math/rand/v2"

func vrealRand() int32 { return rand.Int32() }
