//go:build verif

package cgroup

import (
	"io/fs"
	"os"
	"sync/atomic"
	"syscall"
)

// World S4 seam: every file-system call of this package goes through a wrapper that first yields to
// the simulator (redirected by seamgen in the scratch copy). With no simulator installed the wrappers
// are plain pass-throughs. The yield can also fail the call with an errno the kernel could return.

// VYieldFunc is called before each file-system call; a non-zero errno makes the call fail with it.
type VYieldFunc func(op, path string) syscall.Errno

var vyield atomic.Pointer[VYieldFunc]

// VSetYield installs (or removes, with nil) the simulator's yield function.
func VSetYield(f VYieldFunc) {
	if f == nil {
		vyield.Store(nil)
		return
	}
	vyield.Store(&f)
}

// VSetRandom makes nextRandom deterministic (0 restores math/rand).
var vrandom atomic.Pointer[func() int32]

func VSetRandom(f func() int32) {
	if f == nil {
		vrandom.Store(nil)
		return
	}
	vrandom.Store(&f)
}

func vyRand() int32 {
	if f := vrandom.Load(); f != nil {
		return (*f)()
	}
	return vrealRand()
}

func vy(op, path string) error {
	if f := vyield.Load(); f != nil {
		if e := (*f)(op, path); e != 0 {
			return &fs.PathError{Op: op, Path: path, Err: e}
		}
	}
	return nil
}

func vyStat(p string) (os.FileInfo, error) {
	if err := vy("stat", p); err != nil {
		return nil, err
	}
	return os.Stat(p)
}

func vyMkdir(p string, m os.FileMode) error {
	if err := vy("mkdir", p); err != nil {
		return err
	}
	return os.Mkdir(p, m)
}

func vyMkdirAll(p string, m os.FileMode) error {
	if err := vy("mkdirall", p); err != nil {
		return err
	}
	return os.MkdirAll(p, m)
}

func vyReadFile(p string) ([]byte, error) {
	if err := vy("read", p); err != nil {
		return nil, err
	}
	return os.ReadFile(p)
}

func vyWriteFile(p string, b []byte, m os.FileMode) error {
	if err := vy("write", p); err != nil {
		return err
	}
	return os.WriteFile(p, b, m)
}

func vyOpenFile(p string, fl int, m os.FileMode) (*os.File, error) {
	if err := vy("open", p); err != nil {
		return nil, err
	}
	return os.OpenFile(p, fl, m)
}

func vyRmdir(p string) error {
	if err := vy("rmdir", p); err != nil {
		return err
	}
	return syscall.Rmdir(p)
}
