//go:build verif

package container

import (
	"fmt"
	"os"
	"sync"
	"syscall"

	"github.com/criyle/go-sandbox/pkg/forkexec"
	"github.com/criyle/go-sandbox/pkg/mount"
	"github.com/criyle/go-sandbox/pkg/unixsocket"
)

// VProcs is the simulator-owned process table used by world S1 instead of real
// fork/kill/wait (calls are redirected here by seamgen; with no simulator installed
// they fall through to the real thing, so the same build serves world K).
type VProcs interface {
	Start(r *forkexec.Runner) (int, error)
	Kill(pid int, sig syscall.Signal) error
	Wait4(pid int, ws *syscall.WaitStatus, opt int, ru *syscall.Rusage) (int, error)
	HostKill() error
	HostWait() (*os.ProcessState, error)
}

// VObserver receives message-level events from both endpoints of the RPC.
type VObserver func(sock *unixsocket.Socket, dir string, kind string, err error)

// VServerConf is what handleConf would have stored (S1 never runs initContainer).
type VServerConf struct {
	WorkDir      string
	TmpfsTargets []string // become Mounts entries with FsType tmpfs (targets are joined to "/")
	DefaultEnv   []string
	Cred         bool
}

var (
	vmu       sync.Mutex
	vprocs    VProcs
	vobserver VObserver
	vconf     *VServerConf
	vEver     bool // a simulator was installed once: never fall through to real kill/fork again
)

// VInstall installs (or with nils removes) the simulator seams of this package.
func VInstall(p VProcs, o VObserver) {
	vmu.Lock()
	vprocs, vobserver = p, o
	if p != nil {
		vEver = true
	}
	vmu.Unlock()
}

func vget() (VProcs, VObserver) {
	vmu.Lock()
	defer vmu.Unlock()
	if vprocs == nil && vEver {
		return vDead{}, vobserver
	}
	return vprocs, vobserver
}

// vDead answers for stale goroutines of an earlier simulated world.
type vDead struct{}

func (vDead) Start(*forkexec.Runner) (int, error) { return 0, syscall.ESRCH }
func (vDead) Kill(int, syscall.Signal) error      { return syscall.ESRCH }
func (vDead) HostKill() error                     { return nil }
func (vDead) HostWait() (*os.ProcessState, error) { return nil, nil }
func (vDead) Wait4(int, *syscall.WaitStatus, int, *syscall.Rusage) (int, error) {
	return -1, syscall.ECHILD
}

// vsimStart takes the address of whatever the code calls Start on (a Runner value or a pointer to one).
func vsimStart[T forkexec.Runner | *forkexec.Runner](x *T) (int, error) {
	var r *forkexec.Runner
	switch v := any(x).(type) {
	case *forkexec.Runner:
		r = v
	case **forkexec.Runner:
		r = *v
	}
	if p, _ := vget(); p != nil {
		return p.Start(r)
	}
	return r.Start()
}

func vsimKill(pid int, sig syscall.Signal) error {
	if p, _ := vget(); p != nil {
		return p.Kill(pid, sig)
	}
	return syscall.Kill(pid, sig)
}

func vsimWait4(pid int, ws *syscall.WaitStatus, opt int, ru *syscall.Rusage) (int, error) {
	if p, _ := vget(); p != nil {
		return p.Wait4(pid, ws, opt, ru)
	}
	return syscall.Wait4(pid, ws, opt, ru)
}

func vsimProcKill(pr *os.Process) error {
	if p, _ := vget(); p != nil && pr == nil {
		return p.HostKill()
	}
	return pr.Kill()
}

func vsimProcWait(pr *os.Process) (*os.ProcessState, error) {
	if p, _ := vget(); p != nil && pr == nil {
		return p.HostWait()
	}
	return pr.Wait()
}

// VPoisonPid makes the stub Wait4 end the calling goroutine: used at the end of a simulated run to
// retire the server's wait loop, which in reality ends with the process.
const VPoisonPid = -424242

// VRetireServer asks the wait loop of the last simulated server to exit (it must be idle).
func VRetireServer() {
	vmu.Lock()
	c := vserver
	vserver = nil
	vmu.Unlock()
	if c == nil {
		return
	}
	select {
	case c.waitPid <- VPoisonPid:
	default:
	}
}

var vserver *containerServer

func vsimServeStart(c *containerServer) {
	vmu.Lock()
	conf := vconf
	vserver = c
	vmu.Unlock()
	if conf == nil {
		return
	}
	c.containerConfig.WorkDir = conf.WorkDir
	c.containerConfig.Cred = conf.Cred
	c.containerConfig.ContainerUID = containerUID
	c.containerConfig.ContainerGID = containerGID
	for _, t := range conf.TmpfsTargets {
		c.containerConfig.Mounts = append(c.containerConfig.Mounts, mount.Mount{Source: "tmpfs", Target: t, FsType: "tmpfs"})
	}
	c.defaultEnv = conf.DefaultEnv
}

func vkind(e any) string {
	switch v := e.(type) {
	case cmd:
		return vcmdName(v.Cmd)
	case *cmd:
		return vcmdName(v.Cmd)
	case reply:
		return vreplyName(&v)
	case *reply:
		return vreplyName(v)
	}
	return fmt.Sprintf("%T", e)
}

func vcmdName(c cmdType) string {
	switch c {
	case cmdPing:
		return "ping"
	case cmdOpen:
		return "open"
	case cmdDelete:
		return "delete"
	case cmdReset:
		return "reset"
	case cmdExecve:
		return "execve"
	case cmdOk:
		return "ok"
	case cmdKill:
		return "kill"
	case cmdConf:
		return "conf"
	case cmdSymlink:
		return "symlink"
	}
	return fmt.Sprintf("cmd(%d)", int(c))
}

func vreplyName(r *reply) string {
	switch {
	case r.Error != nil:
		return "reply(error)"
	case r.ExecReply != nil:
		return "reply(result)"
	case r.BatchErrors != nil:
		return "reply(batch)"
	}
	return "reply(empty)"
}

func vsimNoteSend(s *socket, e any) {
	if _, o := vget(); o != nil {
		o(s.Socket, "send", vkind(e), nil)
	}
}

func vsimNoteRecv(s *socket, e any, err error) {
	if _, o := vget(); o != nil {
		k := "?"
		if err == nil {
			k = vkind(e)
		}
		o(s.Socket, "recv", k, err)
	}
}

// VNewHost builds the host side of an environment over the given socket using the
// repository's own constructor statements (tail of startContainer).
func VNewHost(ins *unixsocket.Socket) (Environment, error) {
	return vsimHostTail(ins)
}

// VServe runs the container-side server over the given socket using the repository's own
// constructor statements (tail of Init) and returns what serve() returned.
func VServe(soc *unixsocket.Socket, conf *VServerConf) error {
	vmu.Lock()
	vconf = conf
	vmu.Unlock()
	return vsimServerTail(soc)
}

// ---- world S5: the gob-framed socket layer, two-ended ------------------------------------------

// VFramed is the framed (gob) socket of this package, exported for direct two-ended simulation.
type VFramed struct{ s *socket }

// VNewFramed wraps a raw socket with the repository's framing layer.
func VNewFramed(s *unixsocket.Socket) *VFramed { return &VFramed{newSocket(s)} }

// VSendCmd sends a command of the given kind whose payload is about size bytes.
func (f *VFramed) VSendCmd(kind string, size int, tag string, m unixsocket.Msg) error {
	var c cmd
	pad := make([]byte, size)
	for i := range pad {
		pad[i] = 'p'
	}
	switch kind {
	case "open":
		c = cmd{Cmd: cmdOpen, OpenCmd: []OpenCmd{{Path: tag + string(pad)}}}
	case "delete":
		c = cmd{Cmd: cmdDelete, DeleteCmd: &deleteCmd{Path: tag + string(pad)}}
	case "symlink":
		c = cmd{Cmd: cmdSymlink, SymlinkCmd: []SymbolicLink{{LinkPath: tag, Target: string(pad)}}}
	case "execve":
		c = cmd{Cmd: cmdExecve, ExecCmd: &execCmd{Argv: []string{tag, string(pad)}}}
	default:
		c = cmd{Cmd: cmdPing}
	}
	return f.s.SendMsg(c, m)
}

// VRecvCmd receives a command and returns its kind, tag and payload size.
func (f *VFramed) VRecvCmd() (kind, tag string, size int, m unixsocket.Msg, err error) {
	var c cmd
	m, err = f.s.RecvMsg(&c)
	if err != nil {
		return
	}
	kind = vcmdName(c.Cmd)
	switch {
	case len(c.OpenCmd) > 0:
		p := c.OpenCmd[0].Path
		i := 0
		for i < len(p) && p[i] != 'p' {
			i++
		}
		tag, size = p[:i], len(p)-i
	case c.DeleteCmd != nil:
		p := c.DeleteCmd.Path
		i := 0
		for i < len(p) && p[i] != 'p' {
			i++
		}
		tag, size = p[:i], len(p)-i
	case len(c.SymlinkCmd) > 0:
		tag, size = c.SymlinkCmd[0].LinkPath, len(c.SymlinkCmd[0].Target)
	case c.ExecCmd != nil && len(c.ExecCmd.Argv) == 2:
		tag, size = c.ExecCmd.Argv[0], len(c.ExecCmd.Argv[1])
	}
	return
}

// VSendReply / VRecvReply: the other message type of the protocol.
func (f *VFramed) VSendReply(tag string, size int, m unixsocket.Msg) error {
	pad := make([]byte, size)
	for i := range pad {
		pad[i] = 'p'
	}
	// (the payload travels in the error text: the field least likely to change its type in a refactoring)
	return f.s.SendMsg(reply{Error: &errorReply{Msg: tag + "\x00" + string(pad)}}, m)
}

func (f *VFramed) VRecvReply() (tag string, size int, m unixsocket.Msg, err error) {
	var r reply
	m, err = f.s.RecvMsg(&r)
	if err == nil && r.Error != nil {
		for i := 0; i < len(r.Error.Msg); i++ {
			if r.Error.Msg[i] == 0 {
				tag, size = r.Error.Msg[:i], len(r.Error.Msg)-i-1
				break
			}
		}
	}
	return
}

// VInitPid returns the host-side pid of the container init of an environment built by Builder.
func VInitPid(e Environment) int {
	if c, ok := e.(*container); ok && c.process != nil {
		return c.process.Pid
	}
	return 0
}

// VSelHook, when set (world S1), decides which case of a select rewritten by seamgen's selectSeam is tried
// next: it parks the calling goroutine until the simulator names a case. nil (world K): the select runs as written.
var VSelHook func(site string, n int) int

// vsimCh enables exactly one receive case of a rewritten select: a nil channel is never ready.
func vsimCh[T any](on bool, ch <-chan T) <-chan T {
	if on {
		return ch
	}
	return nil
}

// vsimChS is vsimCh for a send case.
func vsimChS[T any](on bool, ch chan<- T) chan<- T {
	if on {
		return ch
	}
	return nil
}

// vsimMuLock / vsimMuUnlock stand in for Lock / Unlock of the environment's mutex (seamgen): under the simulator
// the lock is a channel of capacity one, on which a waiting goroutine is durably blocked (synctest can tell that
// the bubble is quiescent although a caller is queued behind another one); otherwise the mutex itself.
var (
	vsimMuTab   = map[*sync.Mutex]chan struct{}{}
	vsimMuTabMu sync.Mutex
)

func vsimMuChan(m *sync.Mutex) chan struct{} {
	vsimMuTabMu.Lock()
	defer vsimMuTabMu.Unlock()
	ch := vsimMuTab[m]
	if ch == nil {
		ch = make(chan struct{}, 1)
		vsimMuTab[m] = ch
	}
	return ch
}

func vsimMuLock(m *sync.Mutex) {
	if VSelHook == nil {
		m.Lock()
		return
	}
	vsimMuChan(m) <- struct{}{}
}

func vsimMuUnlock(m *sync.Mutex) {
	if VSelHook == nil {
		m.Unlock()
		return
	}
	<-vsimMuChan(m)
}

// VMuForget drops the simulator's lock of an environment that is gone (the table is keyed by address).
func VMuForget() {
	vsimMuTabMu.Lock()
	vsimMuTab = map[*sync.Mutex]chan struct{}{}
	vsimMuTabMu.Unlock()
}
