//go:build verif

package ptracer

import (
	"sync/atomic"
	"syscall"

	unix "golang.org/x/sys/unix"
)

// VAfterWaitFunc is called by the tracer goroutine right after every successful wait4, i.e. between
// a tracee's stop and the tracer's next ptrace request (the call is spliced in by seamgen). The
// simulator uses it to park the tracer and to kill tracees at exactly that instant.
type VAfterWaitFunc func(pid int, ws unix.WaitStatus)

var vAfterWait atomic.Pointer[VAfterWaitFunc]

// VSetAfterWait installs (or removes, with nil) the hook.
func VSetAfterWait(f VAfterWaitFunc) {
	if f == nil {
		vAfterWait.Store(nil)
		return
	}
	vAfterWait.Store(&f)
}

func vhWait4(pid int, ws *unix.WaitStatus, opt int, ru *unix.Rusage) (int, error) {
	p, err := unix.Wait4(pid, ws, opt, ru)
	if h := vAfterWait.Load(); h != nil && err == nil && ws != nil {
		(*h)(p, *ws)
	}
	return p, err
}

// vhWait4s: the same hook for code that waits through package syscall.
func vhWait4s(pid int, ws *syscall.WaitStatus, opt int, ru *syscall.Rusage) (int, error) {
	p, err := syscall.Wait4(pid, ws, opt, ru)
	if h := vAfterWait.Load(); h != nil && err == nil && ws != nil {
		(*h)(p, unix.WaitStatus(*ws))
	}
	return p, err
}
