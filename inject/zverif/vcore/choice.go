//go:build verif

// Package vcore is the shared core of the deterministic-simulation harness:
// one recorded choice stream, a shrinker on that stream, replay files,
// evidence accounting and known-findings handling.
package vcore

import (
	"fmt"
	"math/rand/v2"
)

// Draw is one recorded decision of the simulator.
type Draw struct {
	V uint64 `json:"v"`
	N uint64 `json:"n"`
	L string `json:"l"`
}

// Source is the only origin of nondeterminism in a simulated run.
type Source struct {
	rng      *rand.Rand
	replay   []uint64
	isReplay bool
	pos      int
	Rec      []Draw
	Limit    int // max draws (guards runaway generators); 0 = default
}

// NewRandom returns a PRNG backed source; one seed is one execution.
func NewRandom(seed uint64) *Source {
	return &Source{rng: rand.New(rand.NewPCG(seed, 0x9e3779b97f4a7c15))}
}

// NewReplay returns a source that replays a recorded sequence (value mod n, zero when exhausted).
func NewReplay(seq []uint64) *Source {
	return &Source{replay: seq, isReplay: true}
}

// ErrTooManyDraws is panicked when a run draws more than Limit values.
type ErrTooManyDraws struct{}

func (ErrTooManyDraws) Error() string { return "too many draws" }

func (s *Source) raw(n uint64) uint64 {
	lim := s.Limit
	if lim == 0 {
		lim = 200000
	}
	if len(s.Rec) >= lim {
		panic(ErrTooManyDraws{})
	}
	if n == 0 {
		n = 1
	}
	if s.isReplay {
		var v uint64
		if s.pos < len(s.replay) {
			v = s.replay[s.pos]
		}
		s.pos++
		return v % n
	}
	return s.rng.Uint64N(n)
}

// Int draws a value in [0,n).
func (s *Source) Int(n int, label string) int {
	if n <= 1 {
		// still recorded so that positions stay aligned when n depends on state
		s.Rec = append(s.Rec, Draw{0, 1, label})
		if s.isReplay {
			s.pos++
		}
		return 0
	}
	v := s.raw(uint64(n))
	s.Rec = append(s.Rec, Draw{v, uint64(n), label})
	return int(v)
}

// Range draws in [lo,hi].
func (s *Source) Range(lo, hi int, label string) int {
	if hi < lo {
		hi = lo
	}
	return lo + s.Int(hi-lo+1, label)
}

// Bool is true with probability num/den.
func (s *Source) Bool(num, den int, label string) bool {
	return s.Int(den, label) < num
}

// Pick chooses one string.
func (s *Source) Pick(label string, opts ...string) string {
	return opts[s.Int(len(opts), label)]
}

// U64 draws a full 64-bit value.
func (s *Source) U64(label string) uint64 {
	v := s.raw(^uint64(0))
	s.Rec = append(s.Rec, Draw{v, ^uint64(0), label})
	return v
}

// Seq returns the recorded sequence of values.
func (s *Source) Seq() []uint64 {
	out := make([]uint64, len(s.Rec))
	for i, d := range s.Rec {
		out[i] = d.V
	}
	return out
}

// Render returns the labelled draws for a replay file.
func (s *Source) Render() []string {
	out := make([]string, len(s.Rec))
	for i, d := range s.Rec {
		out[i] = fmt.Sprintf("%s=%d/%d", d.L, d.V, d.N)
	}
	return out
}
