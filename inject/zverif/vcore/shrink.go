//go:build verif

package vcore

import "time"

// Shrink minimises a choice sequence while keep(seq) stays true, under a wall budget.
// Passes: truncate tail, delete chunks, zero chunks, lower single values.
func Shrink(seq []uint64, keep func([]uint64) bool, budget time.Duration) []uint64 {
	deadline := time.Now().Add(budget)
	cur := append([]uint64(nil), seq...)
	try := func(cand []uint64) bool {
		if time.Now().After(deadline) {
			return false
		}
		if keep(cand) {
			cur = append(cur[:0:0], cand...)
			return true
		}
		return false
	}
	// strip trailing zeros (replay yields zeros when exhausted)
	trim := func() {
		for len(cur) > 0 && cur[len(cur)-1] == 0 {
			cur = cur[:len(cur)-1]
		}
	}
	trim()
	improved := true
	for improved && time.Now().Before(deadline) {
		improved = false
		// truncate
		for n := len(cur) / 2; n >= 1; n /= 2 {
			for len(cur) > n && try(cur[:len(cur)-n]) {
				improved = true
			}
		}
		// delete chunks
		for size := len(cur) / 2; size >= 1; size /= 2 {
			for i := 0; i+size <= len(cur); {
				cand := append(append([]uint64(nil), cur[:i]...), cur[i+size:]...)
				if try(cand) {
					improved = true
				} else {
					i += size
				}
				if time.Now().After(deadline) {
					break
				}
			}
		}
		// zero chunks
		for size := len(cur) / 2; size >= 1; size /= 2 {
			for i := 0; i+size <= len(cur); i += size {
				nz := false
				for _, v := range cur[i : i+size] {
					if v != 0 {
						nz = true
					}
				}
				if !nz {
					continue
				}
				cand := append([]uint64(nil), cur...)
				for j := i; j < i+size; j++ {
					cand[j] = 0
				}
				if try(cand) {
					improved = true
				}
				if time.Now().After(deadline) {
					break
				}
			}
		}
		// lower single values
		for i := 0; i < len(cur) && time.Now().Before(deadline); i++ {
			for cur[i] > 0 {
				cand := append([]uint64(nil), cur...)
				if cand[i] > 8 {
					cand[i] = cand[i] / 2
				} else {
					cand[i]--
				}
				if !try(cand) {
					break
				}
				improved = true
			}
		}
		trim()
	}
	return cur
}
