//go:build verif

package vcore

import (
	"fmt"
	"hash/fnv"
	"sort"
	"sync/atomic"
	"time"
)

var beats atomic.Uint64

// Heartbeat tells the real-time watchdog that the simulation is making progress. It is a counter,
// not a timestamp: inside a synctest bubble time.Now is the fake clock.
func Heartbeat() { beats.Add(1) }

// Violation is one oracle failure.
type Violation struct {
	Prop string `json:"property"`
	Kind string `json:"kind"` // which clause failed
	Site string `json:"site"` // distinguishing feature of the scenario
	Msg  string `json:"msg"`
}

// Sig is the signature used for known findings and for shrinking.
func (v *Violation) Sig() string { return v.Prop + ":" + v.Kind + ":" + v.Site }

// Ctx is the per-run context given to a simulation.
type Ctx struct {
	Src     *Source
	Log     []string
	Events  []string // abstract event kinds (interleaving hash)
	Faults  map[string]int
	Probes  map[string]int
	States  map[uint64]struct{}
	SimTime time.Duration
	Tier    string
	Dir     string // per-worker scratch dir
	Replay  bool
	nontriv bool
}

func NewCtx(src *Source) *Ctx {
	return &Ctx{Src: src, Faults: map[string]int{}, Probes: map[string]int{}, States: map[uint64]struct{}{}}
}

func (c *Ctx) Logf(f string, a ...any) {
	Heartbeat()
	c.Log = append(c.Log, fmt.Sprintf(f, a...))
}
func (c *Ctx) Event(kind string) { c.Events = append(c.Events, kind) }
func (c *Ctx) Fault(kind string) { c.Faults[kind]++; c.nontriv = true }
func (c *Ctx) Probe(name string) { c.Probes[name]++ }
func (c *Ctx) MarkNonTrivial()   { c.nontriv = true }
func (c *Ctx) State(parts ...any) {
	h := fnv.New64a()
	fmt.Fprint(h, parts...)
	c.States[h.Sum64()] = struct{}{}
}

// InterleavingHash is the hash of the abstract event sequence: the identity of a run's schedule.
func (c *Ctx) InterleavingHash() uint64 {
	h := fnv.New64a()
	for _, e := range c.Events {
		h.Write([]byte(e))
		h.Write([]byte{0})
	}
	return h.Sum64()
}

// NonTrivial: at least one fault fired or a non-default schedule/shape decision was taken.
func (c *Ctx) NonTrivial() bool { return c.nontriv }

// Violate builds a violation.
func Violate(prop, kind, site, f string, a ...any) *Violation {
	return &Violation{Prop: prop, Kind: kind, Site: site, Msg: fmt.Sprintf(f, a...)}
}

func SortedKeys(m map[string]int) []string {
	k := make([]string, 0, len(m))
	for s := range m {
		k = append(k, s)
	}
	sort.Strings(k)
	return k
}
