//go:build verif

package vcore

import (
	"encoding/json"
	"fmt"
	"hash"
	"hash/fnv"
	"os"
	"os/exec"
	"path/filepath"
	"runtime"
	"sort"
	"strconv"
	"strings"
	"sync/atomic"
	"syscall"
	"time"
)

// Budget bounds one tier of one property.
type Budget struct {
	Runs   int           // simulated runs per shard (0 = until Wall)
	Wall   time.Duration // wall-clock per shard
	Shards int
}

// Prop is one property's check.
type Prop struct {
	ID          string
	Level       string // exploration | fault_enumeration
	Worlds      string
	Rule        string
	Components  map[string]string // component -> real|stub
	Assumptions []string
	NeedNS      bool // worker runs below a PID-1 reaper in private pid+mount namespaces
	Quick       Budget
	Thorough    Budget
	// Run performs one simulated run driven by c.Src and returns the first violation.
	Run func(c *Ctx) *Violation
	// Init prepares per-worker state (scratch trees...). Optional.
	Init func(dir string, tier string) error
	// Exhaustive reports (after the loop) whether a finite space was enumerated completely.
	RequireProbes []string
	ShrinkBudget  time.Duration
	// StallLimit: if a run makes no progress (no Heartbeat) for this long in real time, OnStall
	// classifies the situation (violation or nil = harness trouble) and the worker ends.
	StallLimit time.Duration
	OnStall    func(c *Ctx) *Violation
	// Parts: a property decided in several worlds. Each part is run with its own budget and
	// isolation; the parent merges everything into one evidence file. Run is unused then.
	Parts []*Prop
}

type foundViolation struct {
	Violation
	Seed       uint64   `json:"seed"`
	Seq        []uint64 `json:"seq"`
	Draws      []string `json:"draws"`
	Scenario   []string `json:"scenario"`
	Count      int      `json:"count"`
	Reproduced bool     `json:"reproduced"`
	OrigLen    int      `json:"orig_len"`
	Part       int      `json:"part"`
}

type shardResult struct {
	Shard       int               `json:"shard"`
	Runs        int               `json:"runs"`
	Seeds       []uint64          `json:"seeds_sample"`
	Hashes      []uint64          `json:"hashes"`
	HashesNT    []uint64          `json:"hashes_nontrivial"`
	States      []uint64          `json:"states"`
	Faults      map[string]int    `json:"faults"`
	Probes      map[string]int    `json:"probes"`
	SimTimeNS   int64             `json:"sim_time_ns"`
	Samples     [][]string        `json:"samples"`
	Violations  []*foundViolation `json:"violations"`
	WallS       float64           `json:"wall_s"`
	HarnessErr  string            `json:"harness_err,omitempty"`
	Determinism string            `json:"determinism,omitempty"`
}

// HarnessError aborts a worker with exit 2 (never a VIOLATION).
type HarnessError struct{ Msg string }

func (h HarnessError) Error() string { return h.Msg }

// VoidRun abandons the current run without a verdict: the environment (not the code under test)
// made it undecidable, e.g. a fixed real-time deadline of go-sandbox expired on an overloaded
// machine before the scenario was even set up. Void runs are counted (reach probe "void_run:<why>")
// and the check turns into harness trouble (exit 2) if more than a quarter of all runs are void.
type voidRun struct{ why string }

func VoidRun(why string) { panic(voidRun{why}) }

// Harnessf panics with a HarnessError.
func Harnessf(f string, a ...any) { panic(HarnessError{fmt.Sprintf(f, a...)}) }

func mix(a, b, c uint64) uint64 {
	x := a*0x9e3779b97f4a7c15 ^ (b+1)*0xbf58476d1ce4e5b9 ^ (c+1)*0x94d049bb133111eb
	x ^= x >> 31
	x *= 0xd6e8feb86659fd93
	x ^= x >> 29
	return x
}

func runOnce(p *Prop, c *Ctx) (v *Violation) {
	defer func() {
		if r := recover(); r != nil {
			if _, ok := r.(ErrTooManyDraws); ok {
				v = nil
				return
			}
			if vr, ok := r.(voidRun); ok {
				c.Probe("void_run:" + vr.why)
				v = nil
				return
			}
			panic(r)
		}
	}()
	return p.Run(c)
}

func verifDir() string {
	if d := os.Getenv("VERIF_HOME"); d != "" {
		return d
	}
	return "/verif"
}

// Main is the entry of the harness binary. args: VERIF_ROLE, VERIF_PROP, VERIF_TIER, VERIF_SEED, VERIF_REPLAY.
func Main(props map[string]*Prop) int {
	role := os.Getenv("VERIF_ROLE")
	id := os.Getenv("VERIF_PROP")
	p := props[id]
	if p == nil {
		fmt.Fprintf(os.Stderr, "verif: unknown property %q\n", id)
		return 2
	}
	tier := os.Getenv("VERIF_TIER")
	if tier == "" {
		tier = "quick"
	}
	if pi := os.Getenv("VERIF_PART"); pi != "" && len(p.Parts) > 0 {
		if i, err := strconv.Atoi(pi); err == nil && i >= 0 && i < len(p.Parts) {
			p = p.Parts[i]
		}
	}
	switch role {
	case "nsinit":
		return nsInit()
	case "worker":
		return worker(p, tier)
	case "replay":
		return replayWorker(p, tier)
	case "det":
		return detWorker(p, tier)
	default:
		if f := os.Getenv("VERIF_REPLAY"); f != "" {
			return replayParent(p, tier, f)
		}
		return parent(p, tier)
	}
}

func baseSeed(tier string) uint64 {
	if s := os.Getenv("VERIF_SEED"); s != "" {
		if v, err := strconv.ParseUint(s, 10, 64); err == nil {
			return v
		}
		if v, err := strconv.ParseInt(s, 10, 64); err == nil {
			return uint64(v)
		}
	}
	if tier == "thorough" {
		return 20260923
	}
	return 1
}

func budget(p *Prop, tier string) Budget {
	b := p.Quick
	if tier == "thorough" {
		b = p.Thorough
	}
	if b.Shards == 0 {
		b.Shards = 16
	}
	if s := os.Getenv("VERIF_SHARDS"); s != "" {
		if n, err := strconv.Atoi(s); err == nil && n > 0 {
			b.Shards = n
		}
	}
	if s := os.Getenv("VERIF_WALL_S"); s != "" {
		if n, err := strconv.Atoi(s); err == nil && n > 0 {
			b.Wall = time.Duration(n) * time.Second
		}
	}
	if s := os.Getenv("VERIF_RUNS"); s != "" {
		if n, err := strconv.Atoi(s); err == nil && n > 0 {
			b.Runs = n
		}
	}
	return b
}

// nsInit: PID 1 of the private namespaces; runs the worker as a child and reaps everything.
func nsInit() int {
	// make mounts private so nothing propagates out
	syscall.Mount("none", "/", "", syscall.MS_REC|syscall.MS_PRIVATE, "")
	nsArgs := append([]string(nil), os.Args[1:]...)
	for i, a := range nsArgs { // (coverage aid: the worker's profile must not be overwritten by this process's own)
		if strings.HasPrefix(a, "-test.coverprofile=") {
			nsArgs[i] = a + ".w"
		}
	}
	cmd := exec.Command("/proc/self/exe", nsArgs...)
	env := []string{}
	for _, e := range os.Environ() {
		if !strings.HasPrefix(e, "VERIF_ROLE=") {
			env = append(env, e)
		}
	}
	cmd.Env = append(env, "VERIF_ROLE="+os.Getenv("VERIF_NSROLE"))
	if h := os.Getenv("VERIF_NSHELPER"); h != "" {
		cmd.Env = append(cmd.Env, "VERIF_HELPER="+h) // the second process of the namespace runs a helper role
	}
	cmd.Stdout, cmd.Stderr, cmd.Stdin = os.Stdout, os.Stderr, nil
	if err := cmd.Start(); err != nil {
		fmt.Fprintln(os.Stderr, "nsinit:", err)
		return 2
	}
	main := cmd.Process.Pid
	code := 2
	for {
		var ws syscall.WaitStatus
		pid, err := syscall.Wait4(-1, &ws, 0, nil)
		if err == syscall.EINTR {
			continue
		}
		if err != nil {
			break
		}
		if pid == main {
			if ws.Exited() {
				code = ws.ExitStatus()
			} else {
				code = 2
				fmt.Fprintf(os.Stderr, "nsinit: worker died: %v\n", ws)
			}
			break
		}
	}
	return code
}

func spawn(p *Prop, role string, extra []string, out string) *exec.Cmd {
	self, _ := os.Executable()
	args := []string{"-test.run", "^TestSim$", "-test.timeout", "0"}
	if d := os.Getenv("VERIF_COVER_DIR"); d != "" { // development aid (bin/covrun): which library code do the checks execute at all
		args = append(args, "-test.coverprofile="+filepath.Join(d, fmt.Sprintf("%s-%s-%d.out", p.ID, role, time.Now().UnixNano())))
	}
	var cmd *exec.Cmd
	env := append(os.Environ(), extra...)
	if p.NeedNS {
		a := append([]string{"-p", "-f", "-m", "--mount-proc", "--propagation", "private", self}, args...)
		cmd = exec.Command("unshare", a...)
		env = append(env, "VERIF_ROLE=nsinit", "VERIF_NSROLE="+role)
	} else {
		cmd = exec.Command(self, args...)
		env = append(env, "VERIF_ROLE="+role)
	}
	cmd.Env = env
	f, _ := os.Create(out)
	cmd.Stdout, cmd.Stderr = f, f
	cmd.SysProcAttr = &syscall.SysProcAttr{Setpgid: true, Pdeathsig: syscall.SIGKILL}
	return cmd
}

// partStats: runs per world of the last parent() (evidence: how much each world contributed)
var partStats []map[string]any

func parent(top *Prop, tier string) int {
	start := time.Now()
	parts := top.Parts
	if len(parts) == 0 {
		parts = []*Prop{top}
	}
	seed := baseSeed(tier)
	var results []*shardResult
	harnessTrouble := false
	var b Budget
	partStats = nil
	for pi, p := range parts {
		if only := os.Getenv("VERIF_ONLY_PART"); only != "" && only != strconv.Itoa(pi) {
			continue // (development aid: one world of a property decided in several)
		}
		rs, trouble, bb := runPart(top, p, pi, tier, seed)
		nruns := 0
		for _, r := range rs {
			nruns += r.Runs
		}
		partStats = append(partStats, map[string]any{"world": p.Worlds, "runs": nruns, "shards": len(rs), "wall_budget_s": bb.Wall.Seconds()})
		results = append(results, rs...)
		harnessTrouble = harnessTrouble || trouble
		b = bb
	}
	if len(results) == 0 {
		return 2
	}
	code := report(top, tier, seed, b, results, time.Since(start))
	if harnessTrouble && code == 0 {
		return 2
	}
	return code
}

func runPart(top, p *Prop, pi int, tier string, seed uint64) ([]*shardResult, bool, Budget) {
	b := budget(p, tier)
	dir := os.Getenv("VERIF_WORKDIR")
	if dir == "" {
		dir = filepath.Join(os.TempDir(), fmt.Sprintf("verif-work-%d", os.Getpid()))
	}
	os.MkdirAll(dir, 0755)
	type proc struct {
		cmd *exec.Cmd
		i   int
	}
	var procs []proc
	runtime.LockOSThread() // Pdeathsig is per-thread
	for i := 0; i < b.Shards; i++ {
		wd := filepath.Join(dir, fmt.Sprintf("p%dw%d", pi, i))
		os.MkdirAll(wd, 0755)
		os.Chmod(wd, 0777)
		cmd := spawn(p, "worker", []string{
			fmt.Sprintf("VERIF_PART=%d", pi), "VERIF_PROP=" + top.ID,
			fmt.Sprintf("VERIF_SHARD=%d", i), fmt.Sprintf("VERIF_NSHARDS=%d", b.Shards),
			"VERIF_WDIR=" + wd, fmt.Sprintf("VERIF_SEED=%d", seed), "VERIF_TIER=" + tier,
		}, filepath.Join(wd, "log"))
		if err := cmd.Start(); err != nil {
			fmt.Fprintln(os.Stderr, "verif: spawn:", err)
			return nil, true, b
		}
		procs = append(procs, proc{cmd, i})
	}
	// watchdog: wall budget + generous slack
	slack := b.Wall*3 + 5*time.Minute + 3*p.StallLimit
	timer := time.AfterFunc(slack, func() {
		for _, pr := range procs {
			syscall.Kill(-pr.cmd.Process.Pid, syscall.SIGKILL)
		}
	})
	harnessTrouble := false
	var results []*shardResult
	for _, pr := range procs {
		err := pr.cmd.Wait()
		wd := filepath.Join(dir, fmt.Sprintf("p%dw%d", pi, pr.i))
		res := &shardResult{}
		data, rerr := os.ReadFile(filepath.Join(wd, "result.json"))
		if rerr != nil || json.Unmarshal(data, res) != nil {
			harnessTrouble = true
			logb, _ := os.ReadFile(filepath.Join(wd, "log"))
			fmt.Fprintf(os.Stderr, "verif: shard %d produced no result (err=%v); log tail:\n%s\n", pr.i, err, tail(string(logb), 4000))
			continue
		}
		if res.HarnessErr != "" {
			harnessTrouble = true
			fmt.Fprintf(os.Stderr, "verif: shard %d harness error: %s\n", pr.i, res.HarnessErr)
		}
		results = append(results, res)
	}
	timer.Stop()
	return results, harnessTrouble, b
}

func tail(s string, n int) string {
	if len(s) > n {
		return s[len(s)-n:]
	}
	return s
}

func worker(p *Prop, tier string) (code int) {
	start := time.Now()
	shard, _ := strconv.Atoi(os.Getenv("VERIF_SHARD"))
	nshards, _ := strconv.Atoi(os.Getenv("VERIF_NSHARDS"))
	wd := os.Getenv("VERIF_WDIR")
	seed := baseSeed(tier)
	b := budget(p, tier)
	res := &shardResult{Shard: shard, Faults: map[string]int{}, Probes: map[string]int{}}
	hashes := map[uint64]struct{}{}
	hashesNT := map[uint64]struct{}{}
	states := map[uint64]struct{}{}
	bySig := map[string]*foundViolation{}
	knownSigs := map[string]bool{}
	for _, kf := range loadKnown() {
		if kf.Status == "known" {
			knownSigs[kf.Signature] = true
		}
	}
	defer func() {
		if r := recover(); r != nil {
			if he, ok := r.(HarnessError); ok {
				res.HarnessErr = he.Msg
			} else {
				buf := make([]byte, 16<<10)
				n := runtime.Stack(buf, false)
				res.HarnessErr = fmt.Sprintf("panic: %v\n%s", r, buf[:n])
			}
			code = 2
		}
		for h := range hashes {
			res.Hashes = append(res.Hashes, h)
		}
		for h := range hashesNT {
			res.HashesNT = append(res.HashesNT, h)
		}
		for h := range states {
			res.States = append(res.States, h)
		}
		res.WallS = time.Since(start).Seconds()
		data, _ := json.Marshal(res)
		os.WriteFile(filepath.Join(wd, "result.json"), data, 0644)
	}()
	if p.Init != nil {
		if err := p.Init(wd, tier); err != nil {
			Harnessf("init: %v", err)
		}
	}
	shrinkBudget := p.ShrinkBudget
	if shrinkBudget == 0 {
		shrinkBudget = 40 * time.Second
		if tier == "thorough" {
			shrinkBudget = 5 * time.Minute
		}
	}
	deadline := start.Add(b.Wall)
	var curCtx atomic.Pointer[Ctx]
	var curSeed atomic.Uint64
	if p.StallLimit > 0 {
		Heartbeat()
		go func() {
			last, since := beats.Load(), time.Now()
			for {
				time.Sleep(p.StallLimit / 8)
				c := curCtx.Load()
				if b := beats.Load(); c == nil || b != last {
					last, since = b, time.Now()
					continue
				}
				if time.Since(since) < p.StallLimit {
					continue
				}
				// stalled in real time: classify, persist, leave
				buf := make([]byte, 1<<20)
				n := runtime.Stack(buf, true)
				os.WriteFile(filepath.Join(wd, "stall-stacks.txt"), buf[:n], 0644)
				if os.Getenv("VERIF_DEBUG") != "" {
					os.Stderr.Write(buf[:n])
				}
				var v *Violation
				if p.OnStall != nil {
					v = p.OnStall(c)
				}
				if v == nil {
					res.HarnessErr = fmt.Sprintf("run stalled for %v in real time (seed %d)", p.StallLimit, curSeed.Load())
				} else {
					res.Violations = append(res.Violations, &foundViolation{Violation: *v, Seed: curSeed.Load(), Seq: c.Src.Seq(),
						Draws: c.Src.Render(), Scenario: append([]string(nil), c.Log...), Count: 1, OrigLen: len(c.Src.Rec)})
				}
				res.WallS = time.Since(start).Seconds()
				data, _ := json.Marshal(res)
				os.WriteFile(filepath.Join(wd, "result.json"), data, 0644)
				if v == nil {
					os.Exit(2)
				}
				os.Exit(0)
			}
		}()
	}
	for k := 0; ; k++ {
		if b.Runs > 0 && k >= b.Runs {
			break
		}
		if b.Wall > 0 && time.Now().After(deadline) {
			break
		}
		s := mix(seed, uint64(shard), uint64(k))
		_ = nshards
		c := NewCtx(NewRandom(s))
		c.Tier, c.Dir = tier, wd
		curSeed.Store(s)
		guarded := func(c *Ctx) *Violation {
			Heartbeat()
			curCtx.Store(c)
			defer curCtx.Store(nil)
			return runOnce(p, c)
		}
		v := guarded(c)
		res.Runs++
		if len(res.Seeds) < 8 {
			res.Seeds = append(res.Seeds, s)
		}
		h := c.InterleavingHash()
		hashes[h] = struct{}{}
		if c.NonTrivial() {
			hashesNT[h] = struct{}{}
		}
		for st := range c.States {
			states[st] = struct{}{}
		}
		for k, n := range c.Faults {
			res.Faults[k] += n
		}
		for k, n := range c.Probes {
			res.Probes[k] += n
		}
		res.SimTimeNS += int64(c.SimTime)
		if len(res.Samples) < 3 && (c.NonTrivial() || k > 20) {
			res.Samples = append(res.Samples, clip(c.Log, 60))
		}
		if v != nil {
			sig := v.Sig()
			if fv := bySig[sig]; fv != nil {
				fv.Count++
				continue
			}
			if len(bySig) >= 6 {
				continue
			}
			fv := &foundViolation{Violation: *v, Seed: s, Count: 1}
			fv.Part, _ = strconv.Atoi(os.Getenv("VERIF_PART"))
			bySig[sig] = fv
			res.Violations = append(res.Violations, fv)
			seq := c.Src.Seq()
			fv.OrigLen = len(seq)
			if knownSigs[sig] {
				// a listed finding: reported as KNOWN-FINDING, not minimised again
				fv.Seq, fv.Draws, fv.Scenario, fv.Reproduced = seq, c.Src.Render(), c.Log, true
				continue
			}
			sb := shrinkBudget
			if p.NeedNS && strings.HasPrefix(v.Kind, "hang") {
				// a hang on real processes costs its whole watchdog every time it is re-run: it is confirmed once
				// (below), not minimised
				sb = 0
			}
			min := Shrink(seq, func(cand []uint64) bool {
				c2 := NewCtx(NewReplay(cand))
				c2.Tier, c2.Dir, c2.Replay = tier, wd, true
				v2 := guarded(c2)
				return v2 != nil && v2.Sig() == sig
			}, sb)
			c3 := NewCtx(NewReplay(min))
			c3.Tier, c3.Dir, c3.Replay = tier, wd, true
			v3 := guarded(c3)
			if v3 != nil && v3.Sig() == sig {
				fv.Reproduced = true
				fv.Violation = *v3
				fv.Seq = c3.Src.Seq()
				fv.Draws = c3.Src.Render()
				fv.Scenario = c3.Log
			} else {
				fv.Seq = seq
				fv.Draws = c.Src.Render()
				fv.Scenario = c.Log
			}
			deadline = deadline.Add(0) // shrinking does not extend the budget
		}
	}
	return 0
}

func clip(l []string, n int) []string {
	if len(l) > n {
		out := append([]string(nil), l[:n]...)
		return append(out, fmt.Sprintf("... (%d more lines)", len(l)-n))
	}
	return l
}

// ReplayFile is the on-disk replay format.
type ReplayFile struct {
	Property   string   `json:"property"`
	World      string   `json:"world"`
	Seed       uint64   `json:"seed"`
	Tier       string   `json:"tier"`
	Signature  string   `json:"signature"`
	Kind       string   `json:"kind"`
	Site       string   `json:"site"`
	Violation  string   `json:"violation"`
	Seq        []uint64 `json:"choice_sequence"`
	Draws      []string `json:"draws"`
	Scenario   []string `json:"scenario"`
	Reproduced bool     `json:"reproduced"`
	OrigLen    int      `json:"original_sequence_length"`
	Part       int      `json:"part"`
}

type knownFinding struct {
	Property    string `json:"property"`
	Signature   string `json:"signature"`
	Status      string `json:"status"` // known | fixed
	Commit      string `json:"commit,omitempty"`
	Description string `json:"description"`
}

func loadKnown() []knownFinding {
	var k []knownFinding
	data, err := os.ReadFile(filepath.Join(verifDir(), "known_findings.json"))
	if err != nil {
		return nil
	}
	json.Unmarshal(data, &k)
	return k
}

func report(p *Prop, tier string, seed uint64, b Budget, results []*shardResult, wall time.Duration) int {
	faults, probes := map[string]int{}, map[string]int{}
	hashes, hashesNT, states := map[uint64]struct{}{}, map[uint64]struct{}{}, map[uint64]struct{}{}
	runs := 0
	var simNS int64
	var samples []any
	var seeds []uint64
	bySig := map[string]*foundViolation{}
	var sigs []string
	for _, r := range results {
		runs += r.Runs
		simNS += r.SimTimeNS
		for k, n := range r.Faults {
			faults[k] += n
		}
		for k, n := range r.Probes {
			probes[k] += n
		}
		for _, h := range r.Hashes {
			hashes[h] = struct{}{}
		}
		for _, h := range r.HashesNT {
			hashesNT[h] = struct{}{}
		}
		for _, h := range r.States {
			states[h] = struct{}{}
		}
		if len(samples) < 4 {
			for _, s := range r.Samples {
				if len(samples) < 4 {
					samples = append(samples, s)
				}
			}
		}
		if len(seeds) < 16 {
			seeds = append(seeds, r.Seeds...)
		}
		for _, v := range r.Violations {
			sig := v.Sig()
			if old := bySig[sig]; old != nil {
				old.Count += v.Count
				if len(v.Seq) < len(old.Seq) && v.Reproduced {
					v.Count = old.Count
					bySig[sig] = v
				}
				continue
			}
			bySig[sig] = v
			sigs = append(sigs, sig)
		}
	}
	sort.Strings(sigs)
	known := loadKnown()
	code := 0
	nviol := 0
	var knownSeen []string
	os.MkdirAll(filepath.Join(verifDir(), "replays"), 0755)
	for _, sig := range sigs {
		v := bySig[sig]
		isKnown := false
		for _, k := range known {
			if k.Status == "known" && k.Signature == sig {
				isKnown = true
				fmt.Printf("KNOWN-FINDING: property=%s %s (%s; seen %d times)\n", p.ID, k.Description, sig, v.Count)
				knownSeen = append(knownSeen, sig)
			}
		}
		if isKnown {
			continue
		}
		nviol++
		code = 1
		name := fmt.Sprintf("%s-%d-%s.json", p.ID, v.Seed, sanitize(v.Kind+"-"+v.Site))
		path := filepath.Join(verifDir(), "replays", name)
		rf := ReplayFile{Property: p.ID, World: p.Worlds, Seed: v.Seed, Tier: tier, Signature: sig, Kind: v.Kind, Site: v.Site,
			Violation: v.Msg, Seq: v.Seq, Draws: v.Draws, Scenario: v.Scenario, Reproduced: v.Reproduced, OrigLen: v.OrigLen, Part: v.Part}
		data, _ := json.MarshalIndent(rf, "", " ")
		os.WriteFile(path, data, 0644)
		fmt.Printf("violation: %s: %s (seed %d, %d draws after shrinking from %d, seen %d times)\n", sig, v.Msg, v.Seed, len(v.Seq), v.OrigLen, v.Count)
		fmt.Printf("VIOLATION property=%s replay=%s\n", p.ID, path)
	}
	if len(samples) == 0 {
		samples = append(samples, "no sample recorded")
	}
	missing := []string{}
	for _, pr := range p.RequireProbes {
		if probes[pr] == 0 {
			missing = append(missing, pr)
		}
	}
	cov := map[string]any{
		"evaluations":            runs,
		"distinct_nontrivial":    len(hashesNT),
		"distinct_interleavings": len(hashes),
		"rule":                   p.Rule,
		"samples":                samples,
		"states":                 len(states),
		"fault_kinds_fired":      faults,
		"reach_probes":           probes,
		"reach_probes_missing":   missing,
		"simulated_time_s":       float64(simNS) / 1e9,
		"runs_per_hour":          float64(runs) / wall.Hours(),
		"shards":                 len(results),
		"seed_derivation":        "run seed = mix(VERIF_SEED, shard, k); every run is replayable from its seed or its recorded choice sequence",
		"seeds_sample":           seeds,
		"components":             p.Components,
		"worlds":                 p.Worlds,
		"known_findings_seen":    knownSeen,
		"exhaustive":             false,
	}
	if len(partStats) > 0 {
		cov["runs_per_world"] = partStats
	}
	ev := map[string]any{
		"property_id": p.ID,
		"tier":        tier,
		"seed":        int64(seed & 0x7fffffffffffffff),
		"level":       p.Level,
		"coverage":    cov,
		"assumptions": p.Assumptions,
		"wall_s":      wall.Seconds(),
		"violations":  nviol,
	}
	if os.Getenv("VERIF_MERGE") == "1" {
		mergeEvidence(ev, filepath.Join(verifDir(), "evidence", p.ID+".json"))
	}
	data, _ := json.MarshalIndent(ev, "", " ")
	os.MkdirAll(filepath.Join(verifDir(), "evidence"), 0755)
	if err := os.WriteFile(filepath.Join(verifDir(), "evidence", p.ID+".json"), data, 0644); err != nil {
		fmt.Fprintln(os.Stderr, "verif: write evidence:", err)
		return 2
	}
	fmt.Printf("verif: %s %s: %d runs, %d distinct interleavings (%d non-trivial), %d states, faults=%v, %.1fs, violations=%d\n",
		p.ID, tier, runs, len(hashes), len(hashesNT), len(states), faults, wall.Seconds(), nviol)
	if len(missing) > 0 && tier == "thorough" {
		fmt.Fprintf(os.Stderr, "verif: reach probes never hit: %v\n", missing)
	}
	void := 0
	for k, n := range probes {
		if strings.HasPrefix(k, "void_run:") {
			void += n
		}
	}
	if code == 0 && void*4 > runs {
		fmt.Fprintf(os.Stderr, "verif: %d of %d runs were void (environment too slow to set the scenario up): nothing decided\n", void, runs)
		return 2
	}
	return code
}

func sanitize(s string) string {
	var b strings.Builder
	for _, r := range s {
		if r >= 'a' && r <= 'z' || r >= 'A' && r <= 'Z' || r >= '0' && r <= '9' || r == '-' || r == '_' {
			b.WriteRune(r)
		} else {
			b.WriteByte('_')
		}
	}
	out := b.String()
	if len(out) > 80 {
		out = out[:80]
	}
	return out
}

func replayParent(p *Prop, tier, file string) int {
	abs, _ := filepath.Abs(file)
	dir := os.Getenv("VERIF_WORKDIR")
	if dir == "" {
		dir = filepath.Join(os.TempDir(), fmt.Sprintf("verif-work-%d", os.Getpid()))
	}
	wd := filepath.Join(dir, "replay")
	os.MkdirAll(wd, 0755)
	os.Chmod(wd, 0777)
	part := 0
	if data, err := os.ReadFile(abs); err == nil {
		var rf ReplayFile
		if json.Unmarshal(data, &rf) == nil {
			part = rf.Part
		}
	}
	top := p
	if len(p.Parts) > 0 && part < len(p.Parts) {
		p = p.Parts[part]
	}
	cmd := spawn(p, "replay", []string{"VERIF_WDIR=" + wd, "VERIF_REPLAY=" + abs, "VERIF_TIER=" + tier, fmt.Sprintf("VERIF_PART=%d", part), "VERIF_PROP=" + top.ID}, filepath.Join(wd, "log"))
	err := cmd.Run()
	logb, _ := os.ReadFile(filepath.Join(wd, "log"))
	os.Stdout.Write(logb)
	if err != nil {
		if ee, ok := err.(*exec.ExitError); ok {
			return ee.ExitCode()
		}
		return 2
	}
	return 0
}

func replayWorker(p *Prop, tier string) int {
	file := os.Getenv("VERIF_REPLAY")
	wd := os.Getenv("VERIF_WDIR")
	data, err := os.ReadFile(file)
	if err != nil {
		fmt.Fprintln(os.Stderr, "verif: replay:", err)
		return 2
	}
	var rf ReplayFile
	if err := json.Unmarshal(data, &rf); err != nil {
		fmt.Fprintln(os.Stderr, "verif: replay:", err)
		return 2
	}
	if rf.Tier != "" {
		tier = rf.Tier
	}
	if p.Init != nil {
		if err := p.Init(wd, tier); err != nil {
			fmt.Fprintln(os.Stderr, "verif: init:", err)
			return 2
		}
	}
	c := NewCtx(NewReplay(rf.Seq))
	c.Tier, c.Dir, c.Replay = tier, wd, true
	if p.StallLimit > 0 {
		// a replayed run that stalls in real time (what the worker's watchdog reports as a hang) must not
		// hang the replay for ever: same limit, same classification
		Heartbeat()
		go func() {
			last, since := beats.Load(), time.Now()
			for {
				time.Sleep(p.StallLimit / 8)
				if b := beats.Load(); b != last {
					last, since = b, time.Now()
					continue
				}
				if time.Since(since) < p.StallLimit {
					continue
				}
				var v *Violation
				if p.OnStall != nil {
					v = p.OnStall(c)
				}
				if v == nil {
					fmt.Printf("replay: the run stalled for %v in real time\n", p.StallLimit)
					os.Exit(2)
				}
				fmt.Printf("replay: %s: %s\n", v.Sig(), v.Msg)
				fmt.Printf("VIOLATION property=%s replay=%s\n", p.ID, file)
				os.Exit(1)
			}
		}()
	}
	v := runOnce(p, c)
	for _, l := range c.Log {
		fmt.Println("  " + l)
	}
	if v == nil {
		fmt.Printf("replay: no violation (recorded signature %s)\n", rf.Signature)
		return 0
	}
	fmt.Printf("replay: %s: %s\n", v.Sig(), v.Msg)
	if v.Sig() != rf.Signature {
		fmt.Printf("replay: signature differs from recorded %s\n", rf.Signature)
	}
	fmt.Printf("VIOLATION property=%s replay=%s\n", p.ID, file)
	return 1
}

// detWorker prints one line per seed: seed, hash of (draws, events, violation signature). Used by
// bin/selftest to prove that a run is a pure function of its seed (in-process worlds).
func detWorker(p *Prop, tier string) int {
	if len(p.Parts) > 0 && p.Run == nil {
		p = p.Parts[0] // the in-process world of a property decided in two worlds
	}
	wd := os.Getenv("VERIF_WDIR")
	os.MkdirAll(wd, 0755)
	if p.Init != nil {
		if err := p.Init(wd, tier); err != nil {
			fmt.Fprintln(os.Stderr, "verif: init:", err)
			return 2
		}
	}
	n, _ := strconv.Atoi(os.Getenv("VERIF_DET_SEEDS"))
	if n == 0 {
		n = 30
	}
	seed := baseSeed(tier)
	for k := 0; k < n; k++ {
		s := mix(seed, 0, uint64(k))
		c := NewCtx(NewRandom(s))
		c.Tier, c.Dir = tier, wd
		v := runOnce(p, c)
		h := fnvNew()
		for _, d := range c.Src.Rec {
			fmt.Fprintf(h, "%s=%d/%d;", d.L, d.V, d.N)
		}
		for _, e := range c.Events {
			fmt.Fprintf(h, "%s;", e)
		}
		sig := "-"
		if v != nil {
			sig = v.Sig()
		}
		fmt.Printf("DET %d %016x draws=%d events=%d %s\n", s, h.Sum64(), len(c.Src.Rec), len(c.Events), sig)
		if os.Getenv("VERIF_DET_DUMP") == fmt.Sprint(s) {
			fmt.Printf("DUMP %d %s\n", s, strings.Join(c.Events, " "))
		}
	}
	return 0
}

func fnvNew() hash.Hash64 { return fnv.New64a() }

// mergeEvidence folds the evidence an earlier run (the other world's build) wrote for the same
// property into ev: counts add up, maps and samples are united, the earlier part is kept verbatim.
func mergeEvidence(ev map[string]any, path string) {
	data, err := os.ReadFile(path)
	if err != nil {
		return
	}
	var old map[string]any
	if json.Unmarshal(data, &old) != nil {
		return
	}
	oc, _ := old["coverage"].(map[string]any)
	nc, _ := ev["coverage"].(map[string]any)
	if oc == nil || nc == nil {
		return
	}
	num := func(v any) float64 {
		switch x := v.(type) {
		case float64:
			return x
		case int:
			return float64(x)
		}
		return 0
	}
	for _, k := range []string{"evaluations", "distinct_nontrivial", "distinct_interleavings", "states"} {
		nc[k] = int(num(nc[k]) + num(oc[k]))
	}
	nc["simulated_time_s"] = num(nc["simulated_time_s"]) + num(oc["simulated_time_s"])
	for _, k := range []string{"fault_kinds_fired", "reach_probes"} {
		om, _ := oc[k].(map[string]any)
		nm, _ := nc[k].(map[string]int)
		merged := map[string]int{}
		for kk, v := range nm {
			merged[kk] = v
		}
		for kk, v := range om {
			merged[kk] += int(num(v))
		}
		nc[k] = merged
	}
	if os, ok := oc["samples"].([]any); ok {
		ns, _ := nc["samples"].([]any)
		nc["samples"] = append(os, ns...)
	}
	nc["rule"] = fmt.Sprint(oc["rule"]) + " || " + fmt.Sprint(nc["rule"])
	nc["worlds"] = fmt.Sprint(oc["worlds"]) + "+" + fmt.Sprint(nc["worlds"])
	if pr, ok := nc["reach_probes"].(map[string]int); ok {
		nc["traces_validated_against_impl"] = pr["validated_on_real_kernel"]
	}
	nc["earlier_part"] = map[string]any{"worlds": oc["worlds"], "evaluations": oc["evaluations"], "components": oc["components"], "runs_per_hour": oc["runs_per_hour"], "wall_s": old["wall_s"]}
	ev["wall_s"] = num(ev["wall_s"]) + num(old["wall_s"])
	ev["violations"] = int(num(ev["violations"]) + num(old["violations"]))
	if oa, ok := old["assumptions"].([]any); ok {
		na, _ := ev["assumptions"].([]string)
		var all []string
		for _, a := range oa {
			all = append(all, fmt.Sprint(a))
		}
		ev["assumptions"] = append(all, na...)
	}
}
