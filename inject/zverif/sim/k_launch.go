//go:build verif && !verifs2

package sim

import (
	"context"
	"fmt"
	"os"
	"path/filepath"
	"strconv"
	"strings"
	"syscall"
	"time"

	"github.com/criyle/go-sandbox/container"
	"github.com/criyle/go-sandbox/pkg/forkexec"
	"github.com/criyle/go-sandbox/pkg/mount"
	"github.com/criyle/go-sandbox/pkg/rlimit"
	"github.com/criyle/go-sandbox/runner"
	"github.com/criyle/go-sandbox/zverif/vcore"
	"golang.org/x/sys/unix"
)

// World-K part of C04 / C06 / C07: the same launch clauses as world S2, on the real kernel, with the
// probe as the target program. Besides deciding the clauses for real, every launch whose outcome
// agrees with the request is one more trace on which the stub kernel's view (S2 passes on the same
// option space) is confirmed by the real kernel.

const closeMarkerK = ^uintptr(0)

func fdListK(f []uintptr) []int {
	var o []int
	for _, v := range f {
		if v == closeMarkerK {
			o = append(o, -1)
		} else {
			o = append(o, int(v))
		}
	}
	return o
}

type klaunch struct {
	r        *forkexec.Runner
	files    []*os.File // the caller's files behind r.Files (nil = standard stream / closed slot)
	want     map[int][2]uint64
	closed   map[int]bool
	reportFd int
	vector   string
	cleanup  []func()
	workdir  string
	syncPid  int
	cb       int
	cbExe    string
	cgPath   string // cgroup2 directory the program is cloned into ("" = none)
	cgFile   *os.File
	exeFile  *os.File // the probe opened by the caller for fexecve (nil = exec by path)
}

func genKLaunch(c *vcore.Ctx, heavyFds bool) *klaunch {
	src := c.Src
	k := &klaunch{want: map[int][2]uint64{}, closed: map[int]bool{}}
	r := &forkexec.Runner{Env: []string{"A=B"}}
	var vec []string
	on := func(b bool, s string) bool {
		if b {
			vec = append(vec, s)
		}
		return b
	}
	// descriptor list: report pipe at a drawn position, the rest from {0,1,2, temp files, close marker}
	nf := 1 + src.Int(4, "nfiles")
	if heavyFds {
		nf = 1 + src.Int(8, "nfiles")
	}
	k.reportFd = src.Int(nf, "reportpos")
	var temps []*os.File
	for i := 0; i < 3; i++ {
		f, err := os.CreateTemp(c.Dir, "kl")
		if err != nil {
			vcore.Harnessf("tempfile: %v", err)
		}
		os.Remove(f.Name())
		temps = append(temps, f)
		k.cleanup = append(k.cleanup, func() { f.Close() })
	}
	ident := func(fd uintptr) [2]uint64 {
		var st syscall.Stat_t
		syscall.Fstat(int(fd), &st)
		return [2]uint64{st.Dev, st.Ino}
	}
	for i := 0; i < nf; i++ {
		if i == k.reportFd {
			r.Files = append(r.Files, 0) // patched below with the report pipe
			continue
		}
		switch src.Int(8, "filekind") {
		case 0:
			r.Files = append(r.Files, closeMarkerK)
			k.closed[i] = true
		case 1, 2:
			fd := uintptr(src.Int(3, "stdfd"))
			r.Files = append(r.Files, fd)
			k.want[i] = ident(fd)
		default:
			t := temps[src.Int(len(temps), "temp")]
			r.Files = append(r.Files, t.Fd())
			k.want[i] = ident(t.Fd())
		}
	}
	// options
	if on(src.Bool(1, 2, "cred"), "cred") {
		r.Credential = &syscall.Credential{Uid: uint32(1000 + src.Int(3, "uid")), Gid: uint32(1000 + src.Int(3, "gid"))}
		switch src.Int(3, "groups") {
		case 1:
			r.Credential.Groups = []uint32{2000, 2001}
		case 2:
			r.Credential.NoSetGroups = true
		}
	}
	r.DropCaps = on(src.Bool(1, 2, "dropcaps"), "dropcaps")
	r.NoNewPrivs = on(src.Bool(1, 2, "nnp"), "nnp")
	if on(src.Bool(1, 2, "seccomp"), "seccomp") {
		r.Seccomp = kFilterAllowAllBut(nil, nil).SockFprog()
	}
	if on(src.Bool(1, 2, "sync"), "sync") {
		r.SyncFunc = func(pid int) error {
			k.cb++
			k.syncPid = pid
			k.cbExe, _ = os.Readlink(fmt.Sprintf("/proc/%d/exe", pid))
			return nil
		}
	}
	r.UnshareCgroupAfterSync = on(src.Bool(1, 3, "cgafter"), "cgafter")
	for _, f := range []struct {
		f uintptr
		n string
	}{{unix.CLONE_NEWPID, "pid"}, {unix.CLONE_NEWNS, "mnt"}, {unix.CLONE_NEWUTS, "uts"}, {unix.CLONE_NEWIPC, "ipc"}, {unix.CLONE_NEWNET, "net"}, {unix.CLONE_NEWCGROUP, "cgroup"}} {
		if on(src.Bool(1, 4, "ns"), "ns:"+f.n) {
			r.CloneFlags |= f.f
		}
	}
	if on(src.Bool(1, 4, "userns") && r.Credential == nil, "ns:user") {
		r.CloneFlags |= unix.CLONE_NEWUSER
	}
	// the child stops itself before loading the filter and waits for the caller's SIGCONT
	// (not together with the callback: the child stops before it reaches the sync point, Start waits for
	// the sync message, and nobody who could continue the child knows its pid yet - the option is made for
	// a tracer; observation outside the listed properties, DESIGN 8.3)
	// (and not for the first process of a new pid namespace, which cannot stop itself: "not effective if pid
	// namespace is unshared", as the library says)
	r.StopBeforeSeccomp = on(r.SyncFunc == nil && r.CloneFlags&unix.CLONE_NEWPID == 0 && src.Bool(1, 5, "stop"), "stop")
	if r.CloneFlags&unix.CLONE_NEWUTS != 0 {
		// never request names without a new UTS namespace: that would rename this machine
		if on(src.Bool(1, 2, "host"), "host") {
			r.HostName = "sandbox-host"
		}
		if on(src.Bool(1, 2, "domain"), "domain") {
			r.DomainName = "sandbox-domain"
		}
	}
	if on(src.Bool(1, 2, "workdir"), "workdir") {
		k.workdir = filepath.Join(c.Dir, "klwd")
		os.MkdirAll(k.workdir, 0777)
		os.Chmod(k.workdir, 0777)
		r.WorkDir = k.workdir
	}
	if on(src.Bool(1, 2, "rlimits"), "rlimits") {
		r.RLimits = []rlimit.RLimit{{Res: syscall.RLIMIT_NOFILE, Rlim: syscall.Rlimit{Cur: 300, Max: 400}}, {Res: syscall.RLIMIT_CORE, Rlim: syscall.Rlimit{}}}
	}
	// clone straight into a cgroup (clone3 + CLONE_INTO_CGROUP): a fresh group on the cgroup2 hierarchy
	if src.Bool(1, 4, "cgroupfd") {
		dir := "/sys/fs/cgroup/unified/verif-kl-" + uniqueSuffix()
		if err := os.Mkdir(dir, 0755); err == nil {
			if f, err := os.Open(dir); err == nil {
				on(true, "cgroupfd")
				k.cgPath, k.cgFile = dir, f
				r.CgroupFd = f.Fd()
				k.cleanup = append(k.cleanup, func() { f.Close(); removeCgroupDir(dir) })
			} else {
				os.Remove(dir)
			}
		}
	}
	// exec through a descriptor of the caller (fexecve)
	if src.Bool(1, 4, "fexecve") {
		if f, err := os.Open(probePath); err == nil {
			on(true, "fexecve")
			k.exeFile = f
			r.ExecFile = f.Fd()
			k.cleanup = append(k.cleanup, func() { f.Close() })
		}
	}
	k.r = r
	k.vector = strings.Join(vec, ",")
	return k
}

var uniqueN int

// uniqueSuffix makes names unique across shards and pid namespaces (cgroup hierarchies are global).
func uniqueSuffix() string {
	uniqueN++
	var st syscall.Stat_t
	syscall.Stat("/proc/self/ns/pid", &st)
	return fmt.Sprintf("%d-%d-%d", st.Ino, time.Now().UnixNano()%1000000007, uniqueN)
}

// removeCgroupDir removes a group once its last process is gone (the kernel refuses earlier).
func removeCgroupDir(dir string) {
	for i := 0; i < 200; i++ {
		if err := syscall.Rmdir(dir); err == nil || err == syscall.ENOENT {
			return
		}
		time.Sleep(5 * time.Millisecond)
	}
}

type klResult struct {
	pid   int
	err   error
	lines []string
	ws    syscall.WaitStatus
	diag  string
	held  bool // the probe was inspected from outside while paused after its report
	// StopBeforeSeccomp: what the stopped child was executing, or that it ended instead of stopping
	stopExe string
	early   bool
}

// run starts the runner with the given probe script and collects report and wait status. With
// inspect != nil the probe is told to pause after its report; once the report is complete the
// harness looks at the live process from outside (inspect), then kills and reaps it.
func (k *klaunch) run(script []string, lastLine string, inspect func(pid int)) *klResult {
	w, out, err := kPipe()
	if err != nil {
		vcore.Harnessf("pipe: %v", err)
	}
	wfd := w.Fd()
	k.r.Files[k.reportFd] = wfd
	if inspect != nil {
		script = append(append([]string{}, script...), "pause")
	}
	k.r.Args = append([]string{probePath, "out", fmt.Sprint(k.reportFd)}, script...)
	res := &klResult{}
	ok := watchdog(60*time.Second, func() {
		res.pid, res.err = k.r.Start()
		if res.err != nil {
			return
		}
		if k.r.StopBeforeSeccomp {
			// the caller's part of the option: wait for the stop, look, continue
			var ws syscall.WaitStatus
			for {
				_, err := syscall.Wait4(res.pid, &ws, syscall.WUNTRACED, nil)
				if err != syscall.EINTR {
					break
				}
			}
			if ws.Stopped() {
				res.stopExe, _ = os.Readlink(fmt.Sprintf("/proc/%d/exe", res.pid))
				syscall.Kill(res.pid, syscall.SIGCONT)
			} else {
				res.ws, res.early = ws, true
				return
			}
		}
		if inspect != nil {
			for i := 0; i < 4000 && len(out.find(lastLine)) == 0 && pidAlive(res.pid); i++ {
				time.Sleep(5 * time.Millisecond)
			}
			if len(out.find(lastLine)) > 0 {
				res.held = true
				inspect(res.pid)
			}
			syscall.Kill(res.pid, syscall.SIGKILL)
		}
		syscall.Wait4(res.pid, &res.ws, 0, nil)
	})
	if res.early {
		res.diag += " (the child ended instead of stopping itself before the filter)"
	}
	w.Close()
	if !ok {
		res.err = fmt.Errorf("verif: launch did not return")
		return res
	}
	eof := out.wait(20 * time.Second)
	res.lines = out.Lines()
	if len(res.lines) == 0 {
		res.diag = fmt.Sprintf("report pipe: write end was fd %d, reader saw end-of-file=%v; descriptors of the harness now: %s", wfd, eof, strings.Join(selfFds(), " "))
	}
	return res
}

func selfFds() []string {
	var o []string
	ents, _ := os.ReadDir("/proc/self/fd")
	for _, e := range ents {
		t, _ := os.Readlink("/proc/self/fd/" + e.Name())
		o = append(o, e.Name()+"="+t)
	}
	return o
}

func (k *klaunch) done() {
	for _, f := range k.cleanup {
		f()
	}
}

func field(lines []string, key string) []string {
	for _, l := range lines {
		if strings.HasPrefix(l, key+" ") {
			return strings.Fields(l)[1:]
		}
	}
	return nil
}

func cKLaunchRun(prop string, wantState, wantFds bool) func(c *vcore.Ctx) *vcore.Violation {
	return func(c *vcore.Ctx) *vcore.Violation {
		k := genKLaunch(c, wantFds)
		defer k.done()
		c.Logf("vector=%s files=%v report-at=%d", k.vector, fdListK(k.r.Files), k.reportFd)
		c.Event("vec:" + k.vector)
		if k.vector != "" {
			c.MarkNonTrivial()
		}
		before := *k.r
		filesBefore := append([]uintptr(nil), k.r.Files...)
		// what the harness sees of the live program from outside, while it is paused after its report
		nsOf := func(pid any) map[string]string {
			m := map[string]string{}
			for _, n := range []string{"user", "pid", "mnt", "uts", "ipc", "net", "cgroup"} {
				m[n], _ = os.Readlink(fmt.Sprintf("/proc/%v/ns/%s", pid, n))
			}
			return m
		}
		var childNS map[string]string
		var childCgroup string
		res := k.run([]string{"state", "fds", "24"}, "fd 23 ", func(pid int) {
			childNS = nsOf(pid)
			b, _ := os.ReadFile(fmt.Sprintf("/proc/%d/cgroup", pid))
			childCgroup = string(b)
		})
		if res.err != nil {
			return vcore.Violate(prop, "launch_refused", "real_kernel", "Start failed on the real kernel: %v (vector %s, files %v)", res.err, k.vector, fdListK(filesBefore))
		}
		if !res.held || len(field(res.lines, "uid")) == 0 {
			return vcore.Violate(prop, "program_did_not_run", "real_kernel", "the probe did not run to its exit (wait status %#x, %d report lines; vector %s) %s", uint32(res.ws), len(res.lines), k.vector, res.diag)
		}
		c.Probe("validated_on_real_kernel")
		r := k.r
		if wantState {
			caps := field(res.lines, "caps")
			sec, _ := strconv.Atoi(strings.Join(field(res.lines, "securebits"), ""))
			if r.Credential != nil || r.DropCaps {
				if len(caps) != 4 || caps[1] != "0x0" || caps[2] != "0x0" || caps[3] != "0x0" {
					return vcore.Violate(prop, "caps_not_dropped", "real_kernel", "capability sets %v (vector %s)", caps, k.vector)
				}
				if sec&1 == 0 {
					return vcore.Violate(prop, "noroot_missing", "real_kernel", "securebits %#x lack SECURE_NOROOT (vector %s)", sec, k.vector)
				}
			}
			nnp := strings.Join(field(res.lines, "nnp"), "")
			if (nnp == "1") != (r.NoNewPrivs || r.Seccomp != nil) {
				return vcore.Violate(prop, "no_new_privs", "real_kernel", "no_new_privs=%s (vector %s)", nnp, k.vector)
			}
			sc := strings.Join(field(res.lines, "seccomp"), "")
			if (sc == "2") != (r.Seccomp != nil) {
				return vcore.Violate(prop, "seccomp", "real_kernel", "seccomp mode %s (vector %s)", sc, k.vector)
			}
			if r.Credential != nil {
				u, g := field(res.lines, "uid"), field(res.lines, "gid")
				if len(u) != 3 || u[0] != fmt.Sprint(r.Credential.Uid) || u[1] != u[0] || u[2] != u[0] || g[0] != fmt.Sprint(r.Credential.Gid) || g[1] != g[0] {
					return vcore.Violate(prop, "ids", "real_kernel/uidgid", "ids %v/%v, requested %d:%d", u, g, r.Credential.Uid, r.Credential.Gid)
				}
				if !r.Credential.NoSetGroups {
					gr := field(res.lines, "groups")
					var want []string
					for _, x := range r.Credential.Groups {
						want = append(want, fmt.Sprint(x))
					}
					if len(gr) == 0 || strings.Join(gr[1:], " ") != strings.Join(want, " ") {
						return vcore.Violate(prop, "ids", "real_kernel/groups", "groups %v, requested %v", gr, want)
					}
				}
			}
			ids := field(res.lines, "pid")
			if len(ids) >= 5 && ids[0] != ids[4] {
				return vcore.Violate(prop, "session", "real_kernel", "pid %s sid %s: not its own session", ids[0], ids[4])
			}
			if r.WorkDir != "" && strings.Join(field(res.lines, "cwd"), " ") != r.WorkDir {
				return vcore.Violate(prop, "cwd", "real_kernel", "cwd %v, requested %s", field(res.lines, "cwd"), r.WorkDir)
			}
			if r.HostName != "" && strings.Join(field(res.lines, "host"), "") != r.HostName {
				return vcore.Violate(prop, "hostname", "real_kernel/host", "host %v", field(res.lines, "host"))
			}
			if r.DomainName != "" && strings.Join(field(res.lines, "domain"), "") != r.DomainName {
				return vcore.Violate(prop, "hostname", "real_kernel/domain", "domain %v", field(res.lines, "domain"))
			}
			if len(r.RLimits) > 0 {
				for _, l := range res.lines {
					if strings.HasPrefix(l, "rlimit 7 ") && l != "rlimit 7 300 400" {
						return vcore.Violate(prop, "rlimit", "real_kernel", "%s, configured 300 400", l)
					}
				}
			}
			// new namespaces exactly for the requested clone flags
			selfNS := nsOf("self")
			for _, f := range []struct {
				n string
				f uintptr
			}{{"user", unix.CLONE_NEWUSER}, {"pid", unix.CLONE_NEWPID}, {"mnt", unix.CLONE_NEWNS}, {"uts", unix.CLONE_NEWUTS}, {"ipc", unix.CLONE_NEWIPC}, {"net", unix.CLONE_NEWNET}, {"cgroup", unix.CLONE_NEWCGROUP}} {
				if childNS[f.n] == "" || selfNS[f.n] == "" {
					continue // this kernel has no such namespace file
				}
				isNew, asked := childNS[f.n] != selfNS[f.n], r.CloneFlags&f.f != 0
				if f.n == "cgroup" && !asked && r.UnshareCgroupAfterSync {
					continue // the late unshare is best effort by design
				}
				if isNew != asked {
					return vcore.Violate(prop, "namespaces", "real_kernel/"+f.n, "%s namespace of the program is new=%v, requested=%v (vector %s)", f.n, isNew, asked, k.vector)
				}
			}
			c.Probe("namespaces_compared_on_real_kernel")
			if k.cgPath != "" {
				want := "0::/" + filepath.Base(k.cgPath)
				found := false
				for _, l := range strings.Split(childCgroup, "\n") {
					if l == want {
						found = true
					}
				}
				if !found {
					return vcore.Violate(prop, "cgroup", "real_kernel/clone_into_cgroup", "the program is not in the requested cgroup %s: %q (vector %s)", want, strings.TrimSpace(childCgroup), k.vector)
				}
				c.Probe("clone_into_cgroup_checked")
			}
			if r.StopBeforeSeccomp && strings.HasSuffix(res.stopExe, filepath.Base(probePath)) {
				return vcore.Violate(prop, "stop", "real_kernel", "stop-before-seccomp: the child that stopped was already executing the target (%s)", res.stopExe)
			}
			if r.SyncFunc != nil {
				if k.cb != 1 || k.syncPid != res.pid {
					return vcore.Violate(prop, "callback_pid", "real_kernel", "callback called %d times with pid %d, Start returned %d", k.cb, k.syncPid, res.pid)
				}
				if strings.HasSuffix(k.cbExe, filepath.Base(probePath)) {
					return vcore.Violate(prop, "gate", "real_kernel", "the target was already executing when the callback ran (%s)", k.cbExe)
				}
			}
		}
		if wantFds {
			for _, l := range res.lines {
				if !strings.HasPrefix(l, "fd ") {
					continue
				}
				f := strings.Fields(l)
				fd, _ := strconv.Atoi(f[1])
				closed := f[2] == "closed"
				switch {
				case fd >= len(r.Files) || k.closed[fd]:
					if !closed {
						return vcore.Violate(prop, "fd_extra", "real_kernel", "descriptor %d is open in the program (%s); files=%v", fd, l, fdListK(filesBefore))
					}
				case fd == k.reportFd:
				default:
					if closed {
						return vcore.Violate(prop, "fd_missing", "real_kernel", "descriptor %d is closed; files=%v", fd, fdListK(filesBefore))
					}
					dev, _ := strconv.ParseUint(f[2], 10, 64)
					ino, _ := strconv.ParseUint(f[3], 10, 64)
					if w := k.want[fd]; w != [2]uint64{dev, ino} {
						return vcore.Violate(prop, "fd_wrong", "real_kernel", "descriptor %d is (%d,%d), the caller listed (%d,%d); files=%v", fd, dev, ino, w[0], w[1], fdListK(filesBefore))
					}
					if f[5] != "0" {
						return vcore.Violate(prop, "fd_cloexec", "real_kernel", "descriptor %d still has close-on-exec set", fd)
					}
				}
			}
			after := *k.r
			if after.ExecFile != before.ExecFile || fmt.Sprint(after.Files) != fmt.Sprint(k.r.Files) {
				return vcore.Violate(prop, "runner_modified", "real_kernel", "Start modified the caller's Runner")
			}
		}
		return nil
	}
}

// c07KRun: failures induced by real inputs; the target must never run, the error names the step,
// no child is left.
func c07KRun(c *vcore.Ctx) *vcore.Violation {
	const prop = "C07"
	src := c.Src
	k := genKLaunch(c, false)
	defer k.done()
	// with stop-before-seccomp Start returns at the stop, before the later steps can fail: by design
	// their failure cannot be reported by Start, so the induced failures are launched without it
	k.r.StopBeforeSeccomp = false
	fail := src.Pick("failure", "missing_workdir", "missing_executable", "garbage_executable", "nonexec_executable", "closed_descriptor", "callback_error", "rlimit_above_hard", "long_hostname",
		"bad_mount_source", "invalid_id_map", "unmapped_uid")
	marker := filepath.Join(c.Dir, fmt.Sprintf("c07-marker-%d", src.Int(1000000, "marker")))
	os.Remove(marker)
	script := []string{"sys", "2", "s:" + marker, "0x41", "0644", "0", "0", "0", "exit", "0"}
	wantLoc := ""
	wantIdx := -1
	target := probePath
	switch fail {
	case "missing_workdir":
		k.r.WorkDir, wantLoc = "/nonexistent-verif-workdir", "chdir"
	case "missing_executable":
		target, wantLoc = "/nonexistent-verif-exe", "execve"
	case "garbage_executable":
		target = filepath.Join(c.Dir, "garbage")
		os.WriteFile(target, []byte("\x7fELFgarbage"), 0777)
		wantLoc = "execve"
	case "nonexec_executable":
		target = filepath.Join(c.Dir, "nonexec")
		os.WriteFile(target, []byte("data"), 0644)
		wantLoc = "execve"
	case "closed_descriptor":
		if len(k.r.Files) < 2 {
			k.r.Files = append(k.r.Files, 0)
		}
		pos := (k.reportFd + 1) % len(k.r.Files)
		k.r.Files[pos] = 19998
		wantLoc = "dup3"
	case "callback_error":
		k.r.SyncFunc = func(pid int) error { k.cb++; k.syncPid = pid; return fmt.Errorf("refused by caller") }
	case "rlimit_above_hard":
		k.r.RLimits = []rlimit.RLimit{{Res: syscall.RLIMIT_NOFILE, Rlim: syscall.Rlimit{Cur: 1 << 30, Max: 1 << 30}}}
		wantLoc = "setrlimt"
	case "long_hostname":
		k.r.CloneFlags |= unix.CLONE_NEWUTS
		k.r.HostName = strings.Repeat("h", 70)
		wantLoc = "sethostname"
	case "bad_mount_source":
		// pivoted root in new mount+user namespaces; mount k of n has a source that does not exist
		root := filepath.Join(c.Dir, "c07root")
		os.MkdirAll(root, 0755)
		k.r.Credential = nil
		k.r.CloneFlags |= unix.CLONE_NEWNS | unix.CLONE_NEWUSER
		k.r.PivotRoot = root
		n := 1 + src.Int(3, "nmounts")
		bad := src.Int(n, "badmount")
		for i := 0; i < n; i++ {
			m := mount.Mount{Source: filepath.Dir(probePath), Target: fmt.Sprintf("m%d", i), Flags: unix.MS_BIND | unix.MS_REC}
			if i == bad {
				m.Source = "/nonexistent-verif-source"
			}
			sp, err := m.ToSyscall()
			if err != nil {
				vcore.Harnessf("ToSyscall: %v", err)
			}
			k.r.Mounts = append(k.r.Mounts, *sp)
		}
		wantLoc, wantIdx = "mount", bad
		k.r.WorkDir = ""
	case "invalid_id_map":
		k.r.Credential = nil
		k.r.CloneFlags |= unix.CLONE_NEWUSER
		k.r.UIDMappings = []syscall.SysProcIDMap{{ContainerID: 0, HostID: 0, Size: 0}}
		wantLoc = "unshare_user_read"
	case "unmapped_uid":
		k.r.CloneFlags |= unix.CLONE_NEWUSER
		k.r.Credential = &syscall.Credential{Uid: 4242, Gid: 0, NoSetGroups: true}
		wantLoc = "setuid"
	}
	if k.r.ExecFile != 0 && target != probePath {
		// launch by descriptor: the descriptor must be the failing object too
		k.r.ExecFile = 0
		if f, err := os.Open(target); err == nil {
			k.r.ExecFile = f.Fd()
			k.cleanup = append(k.cleanup, func() { f.Close() })
		}
	}
	c.Logf("induced failure=%s vector=%s", fail, k.vector)
	c.Event("fail:" + fail)
	c.Fault("induced_" + fail)
	w, out, _ := kPipe()
	k.r.Files[k.reportFd] = w.Fd()
	k.r.Args = append([]string{target, "out", fmt.Sprint(k.reportFd)}, script...)
	kidsBefore := len(childrenOfSelf())
	var pid int
	var err error
	ok := watchdog(30*time.Second, func() { pid, err = k.r.Start() })
	w.Close()
	if !ok {
		return vcore.Violate(prop, "hang", fail, "Start did not return")
	}
	if err == nil {
		var ws syscall.WaitStatus
		syscall.Kill(pid, syscall.SIGKILL)
		syscall.Wait4(pid, &ws, 0, nil)
		out.wait(2 * time.Second)
		return vcore.Violate(prop, "failure_reported_as_success", fail, "Start returned pid %d, nil although %s was induced (vector %s)", pid, fail, k.vector)
	}
	out.wait(2 * time.Second)
	if _, serr := os.Stat(marker); serr == nil {
		os.Remove(marker)
		return vcore.Violate(prop, "target_ran", fail, "the target program ran (its marker exists) although Start returned %v", err)
	}
	if wantLoc != "" {
		ce, isCE := err.(forkexec.ChildError)
		if !isCE {
			return vcore.Violate(prop, "error_not_located", fail, "error %v (%T) does not name the failing step", err, err)
		}
		if ce.Location.String() != wantLoc {
			return vcore.Violate(prop, "error_wrong_step", fail, "error names step %q, the failing step is %q (%v)", ce.Location.String(), wantLoc, err)
		}
		if wantIdx >= 0 && ce.Index != wantIdx {
			return vcore.Violate(prop, "error_wrong_index", fail, "error names entry %d, the failing entry is %d (%v)", ce.Index, wantIdx, err)
		}
	}
	// the child is gone and reaped when Start returns
	if n := len(childrenOfSelf()); n > kidsBefore {
		var z []string
		for _, p := range childrenOfSelf() {
			st, _ := os.ReadFile(fmt.Sprintf("/proc/%d/stat", p))
			if f := strings.Fields(string(st)); len(f) > 2 {
				z = append(z, f[0]+f[1]+f[2])
			}
		}
		return vcore.Violate(prop, "child_left", fail, "after the failed Start (%v) the caller has %d more child process(es): %v", err, n-kidsBefore, z)
	}
	return nil
}

// c06ContainerRun: the container clause of C06. The program started by Execve must see exactly the
// listed descriptors: nothing of the container init (its standard streams - here a pipe of the host
// on descriptor 2 -, its control socket, the exec or cgroup descriptor) may be open in it, also when
// fewer than three descriptors are listed.
var c06Ct *kContainer
var c06Log *os.File

func c06ContainerRun(c *vcore.Ctx) *vcore.Violation {
	const prop = "C06"
	src := c.Src
	if c06Ct != nil {
		if err := c06Ct.env.Ping(); err != nil {
			c06Ct.destroy()
			c06Ct = nil
		}
	}
	if c06Ct == nil {
		// the init's stderr is a real stream of the host, as with Builder.Stderr in production
		pr, pw, err := os.Pipe()
		if err != nil {
			vcore.Harnessf("pipe: %v", err)
		}
		go func() {
			buf := make([]byte, 4096)
			for {
				if _, err := pr.Read(buf); err != nil {
					return
				}
			}
		}()
		ct, err := kBuildContainer(nil, nil, pw)
		if err != nil {
			vcore.Harnessf("container build: %v", err)
		}
		c06Ct, c06Log = ct, pw
	}
	n := 1 + src.Int(5, "nfiles")
	reportPos := src.Int(n, "reportpos")
	w, out, err := kPipe()
	if err != nil {
		vcore.Harnessf("pipe: %v", err)
	}
	var temps []*os.File
	defer func() {
		for _, t := range temps {
			t.Close()
		}
	}()
	want := map[int][2]uint64{}
	var files []uintptr
	var desc []string
	for i := 0; i < n; i++ {
		if i == reportPos {
			files = append(files, w.Fd())
			desc = append(desc, "report")
			continue
		}
		t, err := os.CreateTemp(c.Dir, "c06c")
		if err != nil {
			vcore.Harnessf("tempfile: %v", err)
		}
		os.Remove(t.Name())
		temps = append(temps, t)
		var st syscall.Stat_t
		syscall.Fstat(int(t.Fd()), &st)
		want[i] = [2]uint64{st.Dev, st.Ino}
		files = append(files, t.Fd())
		desc = append(desc, "file")
	}
	p := container.ExecveParam{Args: []string{c06Ct.probe, "out", fmt.Sprint(reportPos), "fds", "24", "exit", "7"}, Env: []string{"A=B"}, Files: files}
	if src.Bool(1, 2, "sync") {
		p.SyncFunc = func(int) error { return nil }
		p.SyncAfterExec = src.Bool(1, 2, "syncafter")
	}
	if src.Bool(1, 3, "fexecve") {
		if f, err := os.Open(probePath); err == nil {
			defer f.Close()
			p.ExecFile = f.Fd()
			desc = append(desc, "(fexecve)")
		}
	}
	c.Logf("container Execve with %d listed descriptors %v, sync=%v after-exec=%v", n, desc, p.SyncFunc != nil, p.SyncAfterExec)
	c.Event(fmt.Sprintf("container:%d:%v:%v", n, p.SyncFunc != nil, p.ExecFile != 0))
	c.MarkNonTrivial()
	var res runner.Result
	ok := watchdog(60*time.Second, func() { res = c06Ct.env.Execve(context.Background(), p) })
	w.Close()
	if !ok {
		return vcore.Violate(prop, "hang", "container", "Execve did not return")
	}
	out.wait(20 * time.Second)
	if res.Status != runner.StatusNonzeroExitStatus || res.ExitStatus != 7 {
		return vcore.Violate(prop, "program_did_not_run", "container", "Execve with %d descriptors: %s exit=%d %q", n, statusName(res.Status), res.ExitStatus, res.Error)
	}
	seen := 0
	for _, l := range out.find("fd ") {
		f := strings.Fields(l)
		if len(f) < 3 {
			continue
		}
		seen++
		fd, _ := strconv.Atoi(f[1])
		closed := f[2] == "closed"
		switch {
		case fd >= n:
			if !closed {
				return vcore.Violate(prop, "fd_extra", "container/unlisted_descriptor", "Execve listed %d descriptors but descriptor %d is open in the program (%s): something of the container init leaked", n, fd, l)
			}
		case fd == reportPos:
		default:
			if closed {
				return vcore.Violate(prop, "fd_missing", "container", "listed descriptor %d is closed in the program", fd)
			}
			dev, _ := strconv.ParseUint(f[2], 10, 64)
			ino, _ := strconv.ParseUint(f[3], 10, 64)
			if want[fd] != [2]uint64{dev, ino} {
				return vcore.Violate(prop, "fd_wrong", "container", "descriptor %d is (%d,%d), the caller listed (%d,%d)", fd, dev, ino, want[fd][0], want[fd][1])
			}
			if len(f) > 5 && f[5] != "0" {
				return vcore.Violate(prop, "fd_cloexec", "container", "descriptor %d still has close-on-exec set", fd)
			}
		}
	}
	if seen != 24 {
		return vcore.Violate(prop, "program_did_not_run", "container", "the probe reported %d of 24 descriptors", seen)
	}
	c.Probe("container_descriptor_table_checked")
	return nil
}

// c04ContainerRun: the container path of C04. A container is built with a drawn identity (credential generator
// with host ids, container ids customised independently of each other), host and domain name and work
// directory; a program started in it reports its state and creates a file, whose owner is then read from
// outside (through /proc/<init>/root): the ids the *caller asked for* are the ones of the credential generator.
func c04ContainerRun(c *vcore.Ctx) *vcore.Violation {
	const prop = "C04"
	src := c.Src
	root, err := os.MkdirTemp(kDir, "c04root")
	if err != nil {
		vcore.Harnessf("mkdir: %v", err)
	}
	os.Chmod(root, 0755)
	defer os.Remove(root)
	mb := mount.NewBuilder().WithBind(filepath.Dir(probePath), "probe", true).WithTmpfs("w", "").WithTmpfs("tmp", "").WithBind("/dev/null", "dev/null", false).WithProc()
	b := container.Builder{Root: root, Mounts: mb.FilterNotExist().Mounts}
	var want struct {
		hostUID, hostGID, cUID, cGID int
		host, domain, cwd            string
	}
	want.hostUID, want.hostGID = -1, -1
	if src.Bool(3, 4, "credgen") {
		want.hostUID, want.hostGID = 10000+src.Int(100, "uid"), 10000+src.Int(100, "gid")
		b.CredGenerator = credGen{uint32(want.hostUID), uint32(want.hostGID)}
	}
	if src.Bool(1, 2, "cuid") {
		want.cUID = 1500 + src.Int(500, "cuidv")
		b.ContainerUID = want.cUID
	}
	if src.Bool(1, 2, "cgid") {
		want.cGID = 1500 + src.Int(500, "cgidv")
		b.ContainerGID = want.cGID
	}
	if src.Bool(1, 2, "hostname") {
		want.host = fmt.Sprintf("h%d", src.Int(1000, "hostv"))
		b.HostName = want.host
	}
	if src.Bool(1, 2, "domainname") {
		want.domain = fmt.Sprintf("d%d.example", src.Int(1000, "domv"))
		b.DomainName = want.domain
	}
	if src.Bool(1, 2, "workdir") {
		want.cwd = src.Pick("workdirv", "/tmp", "/w")
		b.WorkDir = want.cwd
	}
	vec := fmt.Sprintf("credgen=%v cuid=%d cgid=%d host=%q domain=%q workdir=%q", b.CredGenerator != nil, b.ContainerUID, b.ContainerGID, b.HostName, b.DomainName, b.WorkDir)
	c.Logf("container: %s", vec)
	c.Event("c04container:" + fmt.Sprintf("%v/%v/%v/%v/%v/%v", b.CredGenerator != nil, b.ContainerUID != 0, b.ContainerGID != 0, b.HostName != "", b.DomainName != "", b.WorkDir))
	c.MarkNonTrivial()
	env, err := kBuildRetry(&b)
	if err != nil {
		return vcore.Violate(prop, "launch_refused", "container/build", "Build failed for %s: %v", vec, err)
	}
	defer env.Destroy()
	ct := &kContainer{env: env, rootDir: root, probe: "/probe/" + filepath.Base(probePath)}
	e := &kExec{script: []string{"state", "grow", "/tmp/owner", "1", "exit", "7"}}
	withFilter := src.Bool(1, 2, "filter")
	if withFilter {
		e.filter = kFilterAllowAllBut(nil, nil)
	}
	var res runner.Result
	var out *kOut
	if !watchdog(60*time.Second, func() { res, out = ct.exec(context.Background(), e) }) {
		return vcore.Violate(prop, "hang", "container", "Execve did not return (%s)", vec)
	}
	if res.Status != runner.StatusNonzeroExitStatus || res.ExitStatus != 7 {
		return vcore.Violate(prop, "launch_refused", "container/execve", "the program did not run (%s): %s exit=%d %q", vec, statusName(res.Status), res.ExitStatus, res.Error)
	}
	lines := out.Lines()
	get := func(k string) []string { return field(lines, k) }
	num := func(f []string, i int) int64 {
		if i >= len(f) {
			return -1 << 40
		}
		v, err := strconv.ParseInt(f[i], 0, 64)
		if err != nil {
			u, _ := strconv.ParseUint(strings.TrimPrefix(f[i], "0x"), 16, 64)
			return int64(u)
		}
		return v
	}
	uid, gid := get("uid"), get("gid")
	if len(uid) < 3 || len(gid) < 3 {
		return vcore.Violate(prop, "program_did_not_run", "container", "no state report (%s): %v", vec, lines)
	}
	site := "container"
	for i := 0; i < 3 && b.CredGenerator != nil; i++ {
		if want.cUID != 0 && num(uid, i) != int64(want.cUID) {
			return vcore.Violate(prop, "ids", site, "uid %v inside the container, requested %d (%s)", uid, want.cUID, vec)
		}
		if want.cGID != 0 && num(gid, i) != int64(want.cGID) {
			return vcore.Violate(prop, "ids", site, "gid %v inside the container, requested %d (%s)", gid, want.cGID, vec)
		}
	}
	if want.hostUID >= 0 {
		// seen from outside, the program's files belong to the ids the credential generator handed out
		var st syscall.Stat_t
		p := fmt.Sprintf("/proc/%d/root/tmp/owner", containerInitPid(ct))
		if err := syscall.Lstat(p, &st); err != nil {
			return vcore.Violate(prop, "program_did_not_run", site, "the program's file cannot be seen from outside (%s): %v; report %v", vec, err, get("grew"))
		}
		if int(st.Uid) != want.hostUID || int(st.Gid) != want.hostGID {
			return vcore.Violate(prop, "ids", site, "the program ran as host ids %d:%d (owner of the file it created), the credential generator gave %d:%d (%s; inside: uid %v gid %v)", st.Uid, st.Gid, want.hostUID, want.hostGID, vec, uid, gid)
		}
		if g := get("groups"); len(g) > 0 && num(g, 0) > 0 {
			for i := 1; i < len(g); i++ {
				if num(g, i) == 0 {
					return vcore.Violate(prop, "groups", site, "supplementary groups %v contain the container's root group (%s)", g, vec)
				}
			}
		}
	}
	if f := get("caps"); len(f) < 4 || num(f, 1) != 0 || num(f, 2) != 0 || num(f, 3) != 0 {
		return vcore.Violate(prop, "caps", site, "capability sets not empty: %v (%s)", f, vec)
	}
	if f := get("securebits"); len(f) < 1 || num(f, 0)&1 == 0 {
		return vcore.Violate(prop, "securebits", site, "SECBIT_NOROOT not set: %v (%s)", f, vec)
	}
	if f := get("nnp"); len(f) < 1 || num(f, 0) != 1 {
		return vcore.Violate(prop, "nnp", site, "no_new_privs is %v (%s)", f, vec)
	}
	wantMode := int64(0)
	if withFilter {
		wantMode = 2
	}
	if f := get("seccomp"); len(f) < 1 || num(f, 0) != wantMode {
		return vcore.Violate(prop, "seccomp", site, "seccomp mode %v, filter given: %v (%s)", f, withFilter, vec)
	}
	if f := get("pid"); len(f) < 5 || f[0] != f[4] {
		return vcore.Violate(prop, "session", site, "the program is not the leader of its own session: %v (%s)", f, vec)
	}
	if f := get("cwd"); want.cwd != "" && (len(f) < 1 || f[0] != want.cwd) {
		return vcore.Violate(prop, "cwd", site, "working directory %v, requested %s (%s)", f, want.cwd, vec)
	}
	if f := get("host"); want.host != "" && (len(f) < 1 || f[0] != want.host) {
		return vcore.Violate(prop, "hostname", site, "host name %v, requested %s (%s)", f, want.host, vec)
	}
	if f := get("domain"); want.domain != "" && (len(f) < 1 || f[0] != want.domain) {
		return vcore.Violate(prop, "domainname", site, "domain name %v, requested %s (%s)", f, want.domain, vec)
	}
	c.Probe("container_state_checked")
	return nil
}
