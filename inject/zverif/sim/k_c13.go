//go:build verif && !verifs2

package sim

import (
	"bytes"
	"context"
	"crypto/sha256"
	"errors"
	"fmt"
	"io"
	"os"
	"runtime"
	"strings"
	"sync"
	"syscall"
	"time"

	"github.com/criyle/go-sandbox/container"
	"github.com/criyle/go-sandbox/pkg/memfd"
	"github.com/criyle/go-sandbox/pkg/mount"
	"github.com/criyle/go-sandbox/runner"
	"github.com/criyle/go-sandbox/zverif/vcore"
	"golang.org/x/sys/unix"
)

// C13: pooled containers carry no state between tenants; sealed executables are immutable.

type credGen struct{ uid, gid uint32 }

func (c credGen) Get() syscall.Credential { return syscall.Credential{Uid: c.uid, Gid: c.gid} }

// tenantScript draws a program that litters dir with whatever a hostile tenant could leave.
func tenantScript(c *vcore.Ctx, dir string, tag int) []string {
	src := c.Src
	var s []string
	sys := func(nr int, a ...string) {
		args := []string{"sys", fmt.Sprint(nr)}
		args = append(args, a...)
		for len(args) < 8 {
			args = append(args, "0")
		}
		s = append(s, args...)
	}
	// a tenant that covers its tracks: it puts the mount root's modification time back to what it found
	// (the owner of a directory controls its mtime)
	coverTracks := src.Bool(1, 3, "restore_root_mtime")
	if coverTracks {
		s = append(s, "savemtime", dir)
		c.Event("restore_root_mtime")
	}
	n := 1 + src.Int(10, "nleft")
	cur := dir
	for i := 0; i < n; i++ {
		name := src.Pick("name", "plain", ".hidden", "with space", "new\nline", "-rf", "caf\xc3\xa9", "..dots..", "x")
		p := fmt.Sprintf("%s/%s%d_%d", cur, name, tag, i)
		k := src.Pick("leftover", "file", "dir", "deepdir", "dir000", "symlink", "fifo", "socket", "hardlink", "file000", "held_open")
		c.Event("left:" + k)
		switch k {
		case "file":
			sys(2, "s:"+p, "0x41", "0644")
		case "dir":
			sys(83, "s:"+p, "0755")
		case "deepdir":
			sys(83, "s:"+p, "0755")
			cur = p
		case "dir000":
			sys(83, "s:"+p, "0755")
			sys(2, "s:"+p+"/inner", "0x41", "0600")
			sys(90, "s:"+p, "0")
		case "symlink":
			// the target may dangle, stay inside the mount, or lead to another file system of the container
			tgt := src.Pick("linktarget", "/etc/passwd", "/", "/probe", "/tmp", "/w", "/proc/self/status", "../tmp", ".", "/probe/"+"vprobe", "nowhere")
			sys(88, "s:"+tgt, "s:"+p)
		case "fifo":
			sys(133, "s:"+p, "010644", "0")
		case "socket":
			sys(133, "s:"+p, "0140644", "0")
		case "hardlink":
			sys(2, "s:"+p, "0x41", "0644")
			sys(86, "s:"+p, "s:"+p+".lnk")
		case "file000":
			sys(2, "s:"+p, "0x41", "0")
		case "held_open":
			// a lingering child keeps a file open and outlives the main process
			s = append(s, "fork", "2", "sys", "2", "s:"+p, "0x41", "0644", "0", "0", "0", "sleep", "5000")
		}
	}
	if coverTracks {
		s = append(s, "restoremtime", dir)
	}
	s = append(s, "exit", "0")
	return s
}

func c13Run(c *vcore.Ctx) *vcore.Violation {
	if c.Src.Bool(1, 2, "part_memfd") {
		return c13Memfd(c)
	}
	return c13Reset(c)
}

func c13Reset(c *vcore.Ctx) *vcore.Violation {
	const prop = "C13"
	src := c.Src
	var cred container.CredGenerator
	if src.Bool(1, 2, "cred") {
		cred = credGen{uint32(10000 + src.Int(100, "uid")), uint32(10000 + src.Int(100, "gid"))}
	}
	extraTmp := src.Bool(1, 2, "extra_tmpfs")
	// a configured symbolic link that lives inside a writable mount: a tenant may replace it by something of its own
	linkInW := src.Bool(1, 2, "configured_link_in_writable_mount")
	kSymLinks = nil
	if linkInW {
		kSymLinks = []container.SymbolicLink{{LinkPath: "/w/in", Target: "/tmp"}, {LinkPath: "/dev/fd", Target: "/proc/self/fd"}}
	}
	defer func() { kSymLinks = nil }()
	// the extra writable mounts: names unrelated to the standard ones, names that merely begin like one of them
	// ("work", "tmpx" next to "w", "tmp")
	var extraNames []string
	if extraTmp {
		switch src.Pick("extra_tmpfs_names", "scratch", "work", "tmpx_and_work") {
		case "scratch":
			extraNames = []string{"scratch"}
		case "work":
			extraNames = []string{"work"}
		default:
			extraNames = []string{"tmpx", "work"}
		}
	}
	ct, err := kBuildContainer(func(b *mount.Builder) {
		for _, n := range extraNames {
			b.WithTmpfs(n, "size=4m")
		}
	}, cred, nil)
	if err != nil {
		vcore.Harnessf("container build: %v", err)
	}
	defer ct.destroy()
	initPid := container.VInitPid(ct.env)
	mounts := append([]string{"w", "tmp"}, extraNames...)
	c.Logf("container cred=%v writable tmpfs mounts=%v", cred != nil, mounts)
	c.MarkNonTrivial()
	ntenants := 1 + src.Int(3, "ntenants")
	for t := 0; t < ntenants; t++ {
		nruns := 1 + src.Int(2, "runs_before_reset")
		for r := 0; r < nruns; r++ {
			dir := "/" + mounts[src.Int(len(mounts), "where")]
			script := tenantScript(c, dir, t*10+r)
			if linkInW && src.Bool(1, 2, "replace_configured_link") {
				// the tenant puts a directory of its own where the configured link was
				script = append([]string{"sys", "87", "s:/w/in", "0", "0", "0", "0", "0", "sys", "83", "s:/w/in", "0755", "0", "0", "0", "0",
					"sys", "2", "s:/w/in/note", "0x41", "0644", "0", "0", "0"}, script...)
				c.Event("replace_configured_link")
			}
			c.Logf("tenant %d run %d litters %s: %q", t, r, dir, script)
			var res runner.Result
			if !watchdog(60*time.Second, func() { res, _ = ct.exec(context.Background(), &kExec{script: script}) }) {
				return vcore.Violate(prop, "hang", "tenant", "tenant run did not return")
			}
			if res.Status == runner.StatusRunnerError {
				return vcore.Violate(prop, "tenant_failed", "exec", "tenant could not run: %s", res.Error)
			}
		}
		rerr := ct.env.Reset()
		c.Logf("Reset -> %v", rerr)
		// host view through the init's root
		for _, m := range mounts {
			ents, err := os.ReadDir(fmt.Sprintf("/proc/%d/root/%s", initPid, m))
			if err != nil {
				vcore.Harnessf("host view of /%s: %v", m, err)
			}
			var names []string
			for _, e := range ents {
				if linkInW && m == "w" && e.Name() == "in" {
					// the configured link itself may stay or go; anything else under its name is a tenant's
					if tgt, err := os.Readlink(fmt.Sprintf("/proc/%d/root/w/in", initPid)); err == nil && tgt == "/tmp" {
						continue
					}
				}
				names = append(names, fmt.Sprintf("%q(%s)", e.Name(), e.Type()))
			}
			if len(names) > 0 {
				kind := "residue_after_reset"
				site := "mount:" + m
				if m != "w" && m != "tmp" {
					site = "mount:custom_tmpfs"
				}
				return vcore.Violate(prop, kind, site, "after Reset (err=%v) /%s still contains %s", rerr, m, strings.Join(names, ", "))
			}
		}
		if rerr != nil {
			return vcore.Violate(prop, "reset_failed", "reset", "Reset reported %v although nothing is left", rerr)
		}
		// the next tenant's own view
		var out *kOut
		script := []string{}
		for _, m := range mounts {
			script = append(script, "ls", "/"+m)
		}
		script = append(script, "exit", "0")
		watchdog(60*time.Second, func() { _, out = ct.exec(context.Background(), &kExec{script: script}) })
		if out != nil {
			var seen []string
			for _, l := range out.find("ent ") {
				if linkInW && l == "ent 10 in" {
					continue // the configured link (a symbolic link named "in"); the host view above checked where it leads
				}
				seen = append(seen, l)
			}
			if len(seen) > 0 {
				return vcore.Violate(prop, "residue_after_reset", "tenant_view", "the next tenant sees %v", seen)
			}
		}
		if err := ct.env.Ping(); err != nil {
			return vcore.Violate(prop, "unusable_after_reset", "ping", "environment unusable after Reset: %v", err)
		}
	}
	return nil
}

// faultyReader is the io.Reader seam of DupToMemfd: short reads, empty reads, an error after k bytes.
type faultyReader struct {
	data    []byte
	off     int
	chunks  []int
	i       int
	failAt  int // -1: never
	c       *vcore.Ctx
	dataEOF bool // the last chunk is returned together with io.EOF (allowed by io.Reader)
}

var errInjectedRead = errors.New("injected read error")

func (f *faultyReader) Read(p []byte) (int, error) {
	if f.failAt >= 0 && f.off >= f.failAt {
		f.c.Fault("reader_error")
		return 0, errInjectedRead
	}
	if f.off >= len(f.data) {
		return 0, io.EOF
	}
	n := len(p)
	if f.i < len(f.chunks) {
		if f.chunks[f.i] < n {
			n = f.chunks[f.i]
			f.c.Fault("short_read")
		}
		f.i++
	}
	if n > len(f.data)-f.off {
		n = len(f.data) - f.off
	}
	if f.failAt >= 0 && f.off+n > f.failAt {
		n = f.failAt - f.off
	}
	copy(p, f.data[f.off:f.off+n])
	f.off += n
	if f.dataEOF && f.off >= len(f.data) && n > 0 {
		f.c.Fault("data_with_eof")
		return n, io.EOF
	}
	return n, nil
}

// c13MemfdConcurrent: several callers copy their executables at the same time (a judge server seals
// many submissions in parallel); every sealed file must hold its own caller's bytes.
func c13MemfdConcurrent(c *vcore.Ctx) *vcore.Violation {
	const prop = "C13"
	src := c.Src
	n := 2 + src.Int(4, "ncallers")
	size := []int{70000, 1 << 20, 3<<20 + 17}[src.Int(3, "csize")]
	c.Logf("memfd: %d concurrent callers, %d bytes each, plain readers served in pieces", n, size)
	c.Event(fmt.Sprintf("memfd:concurrent:%d:%d", n, size))
	c.Fault("concurrent_memfd_copies")
	c.MarkNonTrivial()
	type res struct {
		f   *os.File
		err error
	}
	datas := make([][]byte, n)
	out := make([]res, n)
	var wg sync.WaitGroup
	start := make(chan struct{})
	for i := 0; i < n; i++ {
		d := make([]byte, size)
		for k := range d {
			d[k] = byte(0x10*(i+1)) + byte(k%13)
		}
		datas[i] = d
		fr := &pieceReader{data: d, step: []int{4096, 8192, 100, 32768}[i%4]}
		wg.Add(1)
		go func(i int) {
			defer wg.Done()
			<-start
			// (not an *os.File, not an io.WriterTo: the copier has to move the bytes itself)
			f, err := memfd.DupToMemfd(fmt.Sprintf("verif%d", i), io.LimitReader(fr, 64<<20))
			out[i] = res{f, err}
		}(i)
	}
	close(start)
	wg.Wait()
	defer func() {
		for _, r := range out {
			if r.f != nil {
				r.f.Close()
			}
		}
	}()
	for i, r := range out {
		if r.err != nil {
			return vcore.Violate(prop, "memfd_failed", "memfd/concurrent", "caller %d of %d: DupToMemfd failed: %v", i, n, r.err)
		}
		got := make([]byte, size+10)
		m, _ := r.f.ReadAt(got, 0)
		if m != size || !bytes.Equal(got[:m], datas[i]) {
			first := -1
			for k := 0; k < m && k < size; k++ {
				if got[k] != datas[i][k] {
					first = k
					break
				}
			}
			return vcore.Violate(prop, "content_differs", "memfd/concurrent", "caller %d of %d concurrent callers: the sealed file has %d bytes (supplied %d), first difference at byte %d: it holds another caller's data", i, n, m, size, first)
		}
	}
	return nil
}

// pieceReader is a plain io.Reader serving its data in pieces (no other interface, no shared state).
type pieceReader struct {
	data []byte
	off  int
	step int
}

func (r *pieceReader) Read(p []byte) (int, error) {
	if r.off >= len(r.data) {
		return 0, io.EOF
	}
	n := r.step
	if n > len(p) {
		n = len(p)
	}
	if n > len(r.data)-r.off {
		n = len(r.data) - r.off
	}
	copy(p, r.data[r.off:r.off+n])
	r.off += n
	runtime.Gosched() // the callers take turns
	return n, nil
}

// c13MemfdHuge: a regular file of a little more than 2 GiB (sparse, with markers around the places where 31- and
// 32-bit counts end) handed to the copier as an open file: the sealed copy has every byte of it.
func c13MemfdHuge(c *vcore.Ctx) *vcore.Violation {
	const prop = "C13"
	size := int64(2<<30) + 12<<10 + 5
	if c.Src.Bool(1, 3, "memfd_huge_4g") && c.Tier == "thorough" {
		size = int64(4<<30) + 4097
	}
	c.Logf("memfd: a sparse regular file of %d bytes as an open file", size)
	c.Event(fmt.Sprintf("memfd:huge:%d", size))
	c.Fault("memfd_source_beyond_2GiB")
	c.MarkNonTrivial()
	tf, err := os.CreateTemp(c.Dir, "c13huge")
	if err != nil {
		vcore.Harnessf("tempfile: %v", err)
	}
	defer tf.Close()
	os.Remove(tf.Name())
	if err := tf.Truncate(size); err != nil {
		vcore.Harnessf("truncate: %v", err)
	}
	marks := []int64{0, 1<<31 - 4096 - 8, 1<<31 - 1, 1<<31 + 100, size - 5}
	if size > 4<<30 {
		marks = append(marks, 1<<32-3, 1<<32+7)
	}
	for i, off := range marks {
		if off+4 <= size {
			tf.WriteAt([]byte{0xA0 + byte(i), 0x55, 0xAA, byte(i)}, off)
		}
	}
	tf.Seek(0, io.SeekStart)
	var f *os.File
	var derr error
	// (gigabytes through a 32 KiB buffer take seconds, on a loaded machine many: the worker's stall watchdog is kept fed)
	stop := make(chan struct{})
	go func() {
		for {
			select {
			case <-stop:
				return
			case <-time.After(5 * time.Second):
				vcore.Heartbeat()
			}
		}
	}()
	defer close(stop)
	if !watchdog(900*time.Second, func() { f, derr = memfd.DupToMemfd("verifhuge", tf) }) {
		return vcore.Violate(prop, "hang", "memfd/huge", "DupToMemfd of a %d byte file did not return", size)
	}
	if derr != nil {
		if errors.Is(derr, syscall.ENOMEM) || errors.Is(derr, syscall.ENOSPC) {
			vcore.VoidRun("no_memory_for_huge_memfd")
		}
		return vcore.Violate(prop, "memfd_failed", "memfd/huge", "DupToMemfd of a %d byte regular file failed: %v", size, derr)
	}
	defer f.Close()
	st, err := f.Stat()
	if err != nil || st.Size() != size {
		return vcore.Violate(prop, "content_differs", "memfd/huge", "the sealed copy of a %d byte regular file has %d bytes (%v)", size, st.Size(), err)
	}
	for i, off := range marks {
		if off+4 > size {
			continue
		}
		got := make([]byte, 4)
		f.ReadAt(got, off)
		if !bytes.Equal(got, []byte{0xA0 + byte(i), 0x55, 0xAA, byte(i)}) {
			return vcore.Violate(prop, "content_differs", "memfd/huge", "the sealed copy of a %d byte file differs at offset %d: %x", size, off, got)
		}
	}
	return nil
}

func c13Memfd(c *vcore.Ctx) *vcore.Violation {
	const prop = "C13"
	src := c.Src
	if src.Bool(1, 5, "memfd_concurrent") {
		return c13MemfdConcurrent(c)
	}
	if src.Bool(1, 60, "memfd_huge") {
		return c13MemfdHuge(c)
	}
	shape := src.Pick("memfd_shape", "copy", "copy", "execute")
	probeBytes, err := os.ReadFile(probePath)
	if err != nil {
		vcore.Harnessf("read probe: %v", err)
	}
	var data []byte
	if shape == "execute" {
		data = probeBytes
	} else {
		size := []int{0, 1, 4095, 4096, 4097, 65536, 1 << 20, 3<<20 + 17}[src.Int(8, "size")]
		data = bytes.Repeat([]byte{byte(1 + src.Int(250, "fill"))}, size)
		for i := 0; i < len(data); i += 997 {
			data[i] = byte(i)
		}
	}
	fr := &faultyReader{data: data, failAt: -1, c: c, dataEOF: src.Bool(1, 3, "data_with_eof")}
	for i := 0; i < src.Int(6, "nchunks"); i++ {
		fr.chunks = append(fr.chunks, []int{0, 1, 100, 4096, 8192}[src.Int(5, "chunk")])
	}
	if shape == "copy" && src.Bool(1, 3, "reader_fails") && len(data) > 0 {
		fr.failAt = src.Int(len(data), "failat")
	}
	c.Logf("memfd shape=%s size=%d chunks=%v failAt=%d", shape, len(data), fr.chunks, fr.failAt)
	c.Event(fmt.Sprintf("memfd:%s:%d:%v", shape, len(data), fr.failAt >= 0))
	c.MarkNonTrivial()
	// the supplier may be any io.Reader; real callers hand in files, buffers and readers in the middle of a stream
	var rd io.Reader = fr
	switch src.Pick("reader_kind", "faulty", "faulty", "osfile_at_offset", "bytes_reader_at_offset", "limited") {
	case "osfile_at_offset":
		if fr.failAt < 0 {
			// a file whose header the caller has already consumed: the supplied bytes are the rest
			hdr := 1 + src.Int(5000, "header")
			tf, err := os.CreateTemp(c.Dir, "c13src")
			if err != nil {
				vcore.Harnessf("tempfile: %v", err)
			}
			defer tf.Close()
			os.Remove(tf.Name())
			tf.Write(bytes.Repeat([]byte{0xEE}, hdr))
			tf.Write(data)
			tf.Seek(int64(hdr), io.SeekStart)
			rd = tf
			c.Event("reader:osfile_at_offset")
		}
	case "bytes_reader_at_offset":
		if fr.failAt < 0 {
			hdr := 1 + src.Int(5000, "header")
			br := bytes.NewReader(append(bytes.Repeat([]byte{0xEE}, hdr), data...))
			br.Seek(int64(hdr), io.SeekStart)
			rd = br
			c.Event("reader:bytes_reader_at_offset")
		}
	case "limited":
		if fr.failAt < 0 {
			rd = io.LimitReader(io.MultiReader(bytes.NewReader(data), bytes.NewReader(bytes.Repeat([]byte{0xEE}, 100))), int64(len(data)))
			c.Event("reader:limited")
		}
	}
	fdsBefore := countFds()
	f, err := memfd.DupToMemfd("verif", rd)
	if fr.failAt >= 0 {
		if err == nil {
			f.Close()
			return vcore.Violate(prop, "reader_error_swallowed", "memfd", "the reader failed after %d bytes but DupToMemfd returned a file", fr.failAt)
		}
		if n := countFds(); n != fdsBefore {
			return vcore.Violate(prop, "descriptor_leak", "memfd", "DupToMemfd failed (%v) and left %d descriptor(s) open", err, n-fdsBefore)
		}
		return nil
	}
	if err != nil {
		return vcore.Violate(prop, "memfd_failed", "memfd", "DupToMemfd of %d bytes failed: %v", len(data), err)
	}
	defer f.Close()
	if off, _ := f.Seek(0, io.SeekCurrent); off != 0 {
		return vcore.Violate(prop, "not_at_start", "memfd", "the sealed file is positioned at %d", off)
	}
	got := make([]byte, len(data)+10)
	n, _ := f.ReadAt(got, 0)
	if n != len(data) || !bytes.Equal(got[:n], data) {
		return vcore.Violate(prop, "content_differs", "memfd", "the sealed file has %d bytes, %d were supplied (equal prefix: %v)", n, len(data), bytes.Equal(got[:min(n, len(data))], data[:min(n, len(data))]))
	}
	seals, err := unix.FcntlInt(f.Fd(), unix.F_GET_SEALS, 0)
	wantSeals := unix.F_SEAL_SEAL | unix.F_SEAL_SHRINK | unix.F_SEAL_GROW | unix.F_SEAL_WRITE
	if err != nil || seals&wantSeals != wantSeals {
		return vcore.Violate(prop, "not_sealed", "memfd", "seals %#x (err %v), expected at least %#x", seals, err, wantSeals)
	}
	// nobody holding the descriptor can change it
	if _, err := f.WriteAt([]byte("x"), 0); err == nil {
		return vcore.Violate(prop, "writable", "holder/write", "write to the sealed file succeeded")
	}
	if err := f.Truncate(int64(len(data)) + 1); err == nil {
		return vcore.Violate(prop, "writable", "holder/grow", "growing the sealed file succeeded")
	}
	if len(data) > 0 {
		if err := f.Truncate(int64(len(data)) - 1); err == nil {
			return vcore.Violate(prop, "writable", "holder/shrink", "shrinking the sealed file succeeded")
		}
	}
	if shape != "execute" {
		return nil
	}
	// a tenant executes it (fexecve) and attacks it from inside
	h0 := sha256.Sum256(data)
	kind := src.Pick("runner", "unshare", "container")
	attacks := []string{
		"sys", "2", "s:/proc/self/exe", "1", "0", "0", "0", "0", // open for writing
		"sys", "2", "s:/proc/self/exe", "0x201", "0", "0", "0", "0", // O_WRONLY|O_TRUNC
		"sys", "1", "3", "buf", "16", "0", "0", "0", // write(3)
		"sys", "18", "3", "buf", "16", "0", "0", "0", // pwrite64
		"sys", "77", "3", "0", "0", "0", "0", "0", // ftruncate
		"sys", "285", "3", "0", "0", "1048576", "0", "0", // fallocate (grow)
		"sys", "9", "0", "4096", "3", "1", "3", "0", // mmap PROT_READ|PROT_WRITE MAP_SHARED
		"sys", "72", "3", "1033", "0", "0", "0", "0", // F_ADD_SEALS 0 is allowed? adds nothing; use value below
		"sys", "2", "s:/proc/self/fd/3", "1", "0", "0", "0", "0",
		"exit", "0"}
	c.Logf("tenant attacks the executable under %s", kind)
	var res runner.Result
	var out *kOut
	ok := watchdog(60*time.Second, func() {
		if kind == "unshare" {
			res, out = kRunUnshare(context.Background(), &kOpts{script: attacks, execFile: f.Fd(), extra: []*os.File{f}})
		} else {
			ct := sharedContainer()
			res, out = ct.exec(context.Background(), &kExec{script: attacks, execFile: f.Fd(), extra: []*os.File{f}})
		}
	})
	if !ok {
		return vcore.Violate(prop, "hang", kind, "run did not return")
	}
	if res.Status != runner.StatusNormal {
		return vcore.Violate(prop, "fexecve_failed", kind, "executing the sealed file failed: %s %d %s", statusName(res.Status), res.ExitStatus, res.Error)
	}
	rets := out.rets()
	names := []string{"open(/proc/self/exe, O_WRONLY)", "open(/proc/self/exe, O_WRONLY|O_TRUNC)", "write", "pwrite", "ftruncate", "fallocate", "mmap(PROT_WRITE, MAP_SHARED)", "fcntl(F_ADD_SEALS)", "open(/proc/self/fd/3, O_WRONLY)"}
	for i, r := range rets {
		if i == 7 {
			continue // adding no seals is not a modification
		}
		failed := r < 0 && r > -4096
		if !failed && i < len(names) {
			return vcore.Violate(prop, "writable", kind+"/"+strings.SplitN(names[i], "(", 2)[0], "inside the sandbox %s succeeded (returned %d) on the sealed executable", names[i], r)
		}
	}
	if len(rets) < 9 {
		return vcore.Violate(prop, "tenant_failed", kind, "the tenant reported %d of 9 attempts", len(rets))
	}
	n, _ = f.ReadAt(got, 0)
	if h1 := sha256.Sum256(got[:n]); h1 != h0 || n != len(data) {
		return vcore.Violate(prop, "content_changed", kind, "the sealed executable changed while a tenant ran it (%d -> %d bytes)", len(data), n)
	}
	return nil
}

func init() {
	register(&vcore.Prop{
		ID: "C13", Level: "exploration", Worlds: "K",
		Rule:       "one run = either (reset) a freshly built container (with/without credential generator, with/without an extra tmpfs mount) serving 1..3 tenants of 1..2 runs each, every run leaving 1..10 objects in a writable tmpfs mount (files, directories, deep paths, 000-mode directories with content, symlinks, FIFOs, sockets, hard links, 000-mode files, files held open by a lingering child; names with spaces, newlines, leading dots and dashes), then Reset, then the host's view through /proc/<init>/root and the next tenant's view; or (memfd) DupToMemfd fed through a faulting reader (sizes 0..3 MiB around page boundaries, short and empty reads, an error after k bytes) checked for content, offset, seals and descriptor conservation, and, with the probe binary as content, executed by fexecve in the namespace runner or a container while the tenant tries nine ways of modifying it. distinct = hash of the leftover kinds / memfd shape; all runs non-trivial",
		Components: kComponents, Assumptions: append([]string{"'writable mount of the container' is read as the container's own tmpfs mounts (Reset is documented to clear work dir and tmp); read-write bind mounts of host directories are shared on purpose and not generated"}, kAssume...), NeedNS: true,
		Quick:    vcore.Budget{Wall: 30 * time.Second, Shards: 16},
		Thorough: vcore.Budget{Wall: 10 * time.Minute, Shards: 16},
		Init:     kInit, Run: c13Run, StallLimit: 150 * time.Second,
	})
}
