//go:build verif && !verifs2

package sim

import (
	"bufio"
	"context"
	"fmt"
	"io"
	"os"
	"os/exec"
	"path/filepath"
	"strconv"
	"strings"
	"syscall"
	"time"

	"github.com/criyle/go-sandbox/container"
	"github.com/criyle/go-sandbox/pkg/forkexec"
	"github.com/criyle/go-sandbox/pkg/unixsocket"
	"github.com/criyle/go-sandbox/ptracer"
	"github.com/criyle/go-sandbox/zverif/vcore"
	"golang.org/x/sys/unix"
)

// C16: if the controlling process dies, the sandbox dies with it. The controller is a helper
// process (this binary in another role) that announces every host-side protocol point on a pipe
// and waits to be released; the simulator kills it with SIGKILL at a chosen point.

func init() {
	helpers["ctl"] = ctlHelper
}

// announce writes one line to fd 3 and waits for one byte on fd 4.
var ctlOut, ctlIn *os.File

func ctlAnnounce(s string) {
	fmt.Fprintln(ctlOut, s)
	var b [1]byte
	if _, err := ctlIn.Read(b[:]); err != nil {
		os.Exit(3)
	}
}

func ctlHelper() int {
	ctlOut, ctlIn = os.NewFile(3, "announce"), os.NewFile(4, "release")
	probePath = os.Getenv("VERIF_PROBE")
	kDir = os.Getenv("VERIF_CTL_DIR")
	scenario := os.Getenv("VERIF_CTL_SCENARIO")
	treeScript := []string{"ignore", "fork", "3", "ignore", "fork", "2", "ignore", "pause", "pause", "daemon", "2", "ignore", "pause", "sleep", "100"}
	if os.Getenv("VERIF_CTL_SPAWN") == "1" {
		// one more descendant, made the way posix_spawn / system() / os/exec make theirs: vfork and exec at once
		treeScript = append([]string{"spawn", "2", "ignore", "pause"}, treeScript...)
	}
	switch scenario {
	case "tracer_userns_killed_at_fork":
		// a tracer driving forkexec directly with a new user namespace for the tracee; the freshly cloned
		// child is held at the child gate while this process is killed
		forkexec.VGateFd = 5
		w, _, _ := kPipe()
		r := &forkexec.Runner{Args: append([]string{probePath}, append(append([]string{}, treeScript...), "pause")...), Env: []string{"A=B"},
			Files: []uintptr{nullFile().Fd(), w.Fd(), nullFile().Fd()}, Ptrace: true, Seccomp: kFilterAllowAllBut([]string{"getppid"}, nil).SockFprog(),
			CloneFlags: unix.CLONE_NEWUSER}
		tr := ptracer.Tracer{Handler: ctlTraceHandler{}, Runner: r, Limit: bigLimit}
		ctlAnnounce("pt start")
		tr.Trace(context.Background())
		ctlAnnounce("pt done")
	case "tracer_cred":
		// a tracer driving forkexec directly, with an unprivileged identity for the tracee
		n := 0
		ptracer.VSetAfterWait(func(pid int, ws unix.WaitStatus) {
			n++
			ctlAnnounce(fmt.Sprintf("pt wait#%d", n))
		})
		s := append(append([]string{}, treeScript...), "pause")
		w, _, _ := kPipe()
		r := &forkexec.Runner{Args: append([]string{probePath}, s...), Env: []string{"A=B"}, Files: []uintptr{nullFile().Fd(), w.Fd(), nullFile().Fd()},
			Ptrace: true, Seccomp: kFilterAllowAllBut([]string{"getppid"}, nil).SockFprog(),
			Credential: &syscall.Credential{Uid: 65534, Gid: 65534, NoSetGroups: true},
			SyncFunc:   func(pid int) error { ctlAnnounce("pt sync"); return nil }}
		tr := ptracer.Tracer{Handler: ctlTraceHandler{}, Runner: r, Limit: bigLimit}
		ctlAnnounce("pt start")
		tr.Trace(context.Background())
		ctlAnnounce("pt done")
	case "tracer", "tracer_killed_at_fork":
		if scenario == "tracer_killed_at_fork" {
			// the freshly forked child is held at the child gate (descriptor 5, released by the simulator
			// after it has killed this process): the tracer dies while the child has not done anything yet
			forkexec.VGateFd = 5
		}
		n := 0
		ptracer.VSetAfterWait(func(pid int, ws unix.WaitStatus) {
			n++
			ctlAnnounce(fmt.Sprintf("pt wait#%d", n))
		})
		ctlAnnounce("pt start")
		long := os.Getenv("VERIF_CTL_LONG") == "1"
		s := append([]string{}, treeScript...)
		if long {
			s = append(s, "pause")
		} else {
			s = append(s, "exit", "0")
		}
		// (with a sync callback: one more announced point, at which the child is parked on the sync socket)
		var sync func(int) error
		if scenario == "tracer" {
			// (not in the gate scenario: there the child must get past the launch without a parent to talk to,
			// which the sync socket would end at once)
			sync = func(pid int) error { ctlAnnounce("pt sync"); return nil }
		}
		kRunPtrace(context.Background(), &kOpts{script: s, filter: kFilterAllowAllBut([]string{"getppid"}, nil), handler: &recHandler{}, syncFunc: sync})
		ctlAnnounce("pt done")
	default:
		n := 0
		container.VInstall(nil, func(sock *unixsocket.Socket, dir, kind string, err error) {
			n++
			ctlAnnounce(fmt.Sprintf("pt msg#%d %s:%s", n, dir, kind))
		})
		var stderr io.Writer
		if scenario == "container_stalled_stderr" {
			// the container's stderr is a pipe nobody reads, already full
			pr, pw, _ := os.Pipe()
			_ = pr
			syscall.SetNonblock(int(pw.Fd()), true)
			junk := make([]byte, 4096)
			for {
				if _, err := syscall.Write(int(pw.Fd()), junk); err != nil {
					break
				}
			}
			syscall.SetNonblock(int(pw.Fd()), false)
			stderr = pw
		}
		kInitCommand = nil
		if scenario == "container_initcmd" {
			kInitCommand = []string{"/probe/" + filepath.Base(probePath), "ignore", "sleep", "30000"}
		}
		// (with a credential generator the init changes identity for what it does on behalf of programs; whatever it
		// arranged for the death of its parent must survive that)
		var cred container.CredGenerator
		if os.Getenv("VERIF_CTL_CRED") == "1" {
			cred = credGen{10007, 10008}
		}
		ct, err := kBuildContainer(nil, cred, stderr)
		if err != nil {
			fmt.Fprintln(os.Stderr, "ctl: build:", err)
			return 2
		}
		ctlAnnounce(fmt.Sprintf("init %d", container.VInitPid(ct.env)))
		ct.env.Ping()
		ct.env.Open([]container.OpenCmd{{Path: "/w/x", Flag: os.O_CREATE | os.O_WRONLY, Perm: 0644}})
		long := os.Getenv("VERIF_CTL_LONG") == "1"
		s := append([]string{}, treeScript...)
		if long {
			s = append(s, "pause")
		} else {
			s = append(s, "exit", "0")
		}
		e := &kExec{script: s, syncAfter: scenario == "container_syncafter"}
		if scenario == "container_stalled_stderr" {
			e.script = append(append([]string{}, treeScript...), "pause")
		}
		e.syncFunc = func(pid int) error { ctlAnnounce("pt sync"); return nil }
		ct.exec(context.Background(), e)
		ct.env.Reset()
		ct.env.Ping()
		ctlAnnounce("pt done")
	}
	return 0
}

type ctlTraceHandler struct{}

func (ctlTraceHandler) Handle(*ptracer.Context) ptracer.TraceAction { return ptracer.TraceAllow }
func (ctlTraceHandler) Debug(v ...interface{})                      {}

// descendants lists the host pids of all descendants of pid.
func descendants(pid int) []int {
	var out []int
	var walk func(p int)
	walk = func(p int) {
		tasks, _ := os.ReadDir(fmt.Sprintf("/proc/%d/task", p))
		for _, t := range tasks {
			b, err := os.ReadFile(fmt.Sprintf("/proc/%d/task/%s/children", p, t.Name()))
			if err != nil {
				continue
			}
			for _, f := range strings.Fields(string(b)) {
				c, _ := strconv.Atoi(f)
				if c > 0 {
					out = append(out, c)
					walk(c)
				}
			}
		}
	}
	walk(pid)
	return out
}

func c16Run(c *vcore.Ctx) *vcore.Violation {
	const prop = "C16"
	src := c.Src
	scenario := src.Pick("scenario", "container", "container_syncafter", "tracer", "tracer", "tracer_cred", "container_initcmd", "container_stalled_stderr", "tracer_killed_at_fork", "tracer_userns_killed_at_fork")
	long := src.Bool(1, 2, "program_runs_forever")
	gate := scenario == "tracer_killed_at_fork" || scenario == "tracer_userns_killed_at_fork"
	if scenario == "container_initcmd" || scenario == "container_stalled_stderr" || scenario == "tracer_cred" || gate {
		long = true
	}
	spawn := src.Bool(1, 2, "tree_with_spawned_descendant")
	killAt := src.Int(40, "killpoint")
	if src.Bool(1, 2, "early_kill") {
		killAt = src.Int(5, "early_killpoint") // the first few points of a scenario are where the mechanisms hand over
	}
	if gate {
		killAt = 1 << 20 // never at an announcement: while the helper is blocked with its child held at the gate
	}
	c.Logf("scenario=%s program-runs-forever=%v kill at announcement #%d", scenario, long, killAt)
	// the controller may run below a child subreaper (a service manager, a container runtime shim): its
	// orphans are then inherited by that process, not by pid 1
	subreaper := src.Bool(1, 2, "below_subreaper")
	if subreaper {
		unix.Prctl(unix.PR_SET_CHILD_SUBREAPER, 1, 0, 0, 0)
		c.Event("subreaper")
		defer func() {
			unix.Prctl(unix.PR_SET_CHILD_SUBREAPER, 0, 0, 0, 0)
			for i := 0; i < 200; i++ { // collect what was inherited
				var ws syscall.WaitStatus
				pid, err := syscall.Wait4(-1, &ws, syscall.WNOHANG, nil)
				if err == syscall.ECHILD {
					break
				}
				if pid <= 0 {
					time.Sleep(5 * time.Millisecond)
				}
			}
		}()
	}
	self, _ := os.Executable()
	cmd := exec.Command(self, "-test.run", "^$")
	ar, aw, _ := os.Pipe() // announcements helper -> simulator
	rr, rw, _ := os.Pipe() // releases simulator -> helper
	cmd.ExtraFiles = []*os.File{aw, rr}
	var gateW *os.File
	if gate {
		gr, gw, _ := os.Pipe()
		cmd.ExtraFiles = append(cmd.ExtraFiles, gr) // descriptor 5 of the helper and of its forked child
		gateW = gw
		defer gr.Close()
		defer gw.Close()
	}
	if spawn {
		c.Event("spawned_descendant")
	}
	withCred := strings.HasPrefix(scenario, "container") && src.Bool(1, 2, "container_cred")
	if withCred {
		c.Event("container_cred")
	}
	cmd.Env = append(os.Environ(), fmt.Sprintf("VERIF_CTL_CRED=%d", map[bool]int{true: 1, false: 0}[withCred]), fmt.Sprintf("VERIF_CTL_SPAWN=%d", map[bool]int{true: 1, false: 0}[spawn]), "VERIF_HELPER=ctl", "VERIF_CTL_SCENARIO="+scenario, "VERIF_CTL_DIR="+c.Dir, fmt.Sprintf("VERIF_CTL_LONG=%d", map[bool]int{true: 1, false: 0}[long]))
	cmd.Stderr = nil
	if err := cmd.Start(); err != nil {
		vcore.Harnessf("start helper: %v", err)
	}
	aw.Close()
	rr.Close()
	defer ar.Close()
	defer rw.Close()
	helper := cmd.Process.Pid
	lines := make(chan string, 64)
	go func() {
		sc := bufio.NewScanner(ar)
		for sc.Scan() {
			lines <- sc.Text()
		}
		close(lines)
	}()
	initPid := 0
	idx := 0
	var at string
	killed := false
	timeout := time.After(60 * time.Second)
loop:
	for {
		select {
		case l, ok := <-lines:
			if !ok {
				break loop
			}
			vcore.Heartbeat()
			if strings.HasPrefix(l, "init ") {
				initPid, _ = strconv.Atoi(strings.Fields(l)[1])
				rw.Write([]byte{1})
				continue
			}
			c.Event(strings.SplitN(strings.TrimPrefix(l, "pt "), "#", 2)[0])
			if idx == killAt || (long && strings.HasPrefix(l, "pt done")) {
				at = l
				break loop
			}
			idx++
			rw.Write([]byte{1})
		case <-time.After(1500 * time.Millisecond):
			// no announcement for a while: the helper is blocked inside a call (program running): strike here
			if long {
				at = "(blocked in a call while the program runs)"
				break loop
			}
		case <-timeout:
			cmd.Process.Kill()
			cmd.Wait()
			return vcore.Violate(prop, "helper_stuck", scenario, "controller helper made no progress")
		}
	}
	if at == "" {
		// the scenario finished before the kill point was reached
		cmd.Process.Kill()
		cmd.Wait()
		c.Probe("scenario_finished_before_kill_point")
		return nil
	}
	// who must die: everything below the helper (container init and its tree, or the tracees)
	victims := descendants(helper)
	c.Logf("controller killed at %q; sandboxed processes alive at that moment: %v (init %d)", at, victims, initPid)
	c.Fault("controller_sigkill")
	c.Event("kill@" + strings.SplitN(strings.TrimPrefix(at, "pt "), "#", 2)[0])
	syscall.Kill(helper, syscall.SIGKILL)
	killed = true
	cmd.Wait()
	if gateW != nil {
		// now the child held at the gate goes on: its parent and tracer-to-be is gone
		c.Fault("child_released_after_tracer_death")
		gateW.Write([]byte{1})
	}
	_ = killed
	deadline := time.Now().Add(10 * time.Second)
	var alive []int
	for {
		alive = alive[:0]
		for _, p := range victims {
			if pidAlive(p) {
				alive = append(alive, p)
			}
		}
		if len(alive) == 0 || time.Now().After(deadline) {
			break
		}
		time.Sleep(10 * time.Millisecond)
	}
	if len(alive) > 0 {
		var desc []string
		for _, p := range alive {
			comm, _ := os.ReadFile(fmt.Sprintf("/proc/%d/comm", p))
			st, _ := os.ReadFile(fmt.Sprintf("/proc/%d/stat", p))
			state := "?"
			if i := strings.LastIndex(string(st), ")"); i > 0 && i+2 < len(st) {
				state = string(st[i+2 : i+3])
			}
			desc = append(desc, fmt.Sprintf("%d(%s,%s)", p, strings.TrimSpace(string(comm)), state))
			syscall.Kill(p, syscall.SIGKILL)
		}
		site := scenario + "/" + strings.SplitN(strings.TrimPrefix(at, "pt "), "#", 2)[0]
		return vcore.Violate(prop, "survivors", site, "10 s after the controller was killed at %q these sandboxed processes are still alive: %s", at, strings.Join(desc, " "))
	}
	return nil
}

func init() {
	register(&vcore.Prop{
		ID: "C16", Level: "fault_enumeration", Worlds: "K",
		Rule:       "one run = one controller helper process driving one scenario (container: Build, Ping, Open, Execve of a signal-ignoring, forking, daemonising probe tree with the sync callback before or after exec, Reset, Ping; tracer: ptrace run of the same tree), announcing every host-side protocol point (every message sent or received on the control socket, the sync callback, every wait4 return of the tracer) and waiting to be released; the simulator SIGKILLs it at announcement #k (k drawn from 0..39, so across runs every point of every scenario is hit) or while it is blocked with the program running; all processes below the helper at that moment must be dead within 10 s. distinct = hash of the announcement kinds up to the kill; non-trivial = the controller was killed",
		Components: kComponents, Assumptions: append([]string{"crash points are the announced host-side points plus 'blocked while the program runs'; instants between two announcements are not pinned"}, kAssume...), NeedNS: true,
		Quick:    vcore.Budget{Wall: 40 * time.Second, Shards: 16},
		Thorough: vcore.Budget{Wall: 12 * time.Minute, Shards: 16},
		Init:     kInit, Run: c16Run, StallLimit: 150 * time.Second,
	})
}
