//go:build verif && !verifs2

package sim

import (
	"strconv"
	"bytes"
	"errors"
	"fmt"
	"os"
	"os/exec"
	"strings"
	"sync"
	"syscall"
	"time"

	"github.com/criyle/go-sandbox/container"
	"github.com/criyle/go-sandbox/pkg/unixsocket"
	"github.com/criyle/go-sandbox/zverif/vcore"
)

// World S5: both ends of one real SEQPACKET pair in one process, driven by one simulator and
// checked against a FIFO reference model, with exact descriptor accounting after every step.

type s5msg struct {
	data []byte
	ids  []uint64 // inode identity of each attached open file
	cred *syscall.Ucred
	tag  string
	kind string
	size int
}

type s5end struct {
	name     string
	raw      *unixsocket.Socket
	framed   *container.VFramed
	passcred bool
	closed   bool
	in       []*s5msg // model: messages queued towards this end
}

func s5Files(n int, dir string) ([]*os.File, []uint64) {
	var fs []*os.File
	var ids []uint64
	for i := 0; i < n; i++ {
		f, err := os.CreateTemp(dir, "s5f")
		if err != nil {
			vcore.Harnessf("tempfile: %v", err)
		}
		os.Remove(f.Name())
		var st syscall.Stat_t
		syscall.Fstat(int(f.Fd()), &st)
		fs = append(fs, f)
		ids = append(ids, st.Ino)
	}
	return fs, ids
}

// c19ExecStorm: "close-on-exec on arrival" is only observable by somebody who execs at the wrong
// moment. While one goroutine receives messages carrying 250 descriptors each, another keeps
// starting a child program that lists what it inherited: no received descriptor may ever show up there.
func c19ExecStorm(c *vcore.Ctx) *vcore.Violation {
	const prop = "C19"
	a, b, err := unixsocket.NewSocketPair()
	if err != nil {
		vcore.Harnessf("socketpair: %v", err)
	}
	defer a.Close()
	defer b.Close()
	tf, err := os.CreateTemp(c.Dir, "s5storm")
	if err != nil {
		vcore.Harnessf("tempfile: %v", err)
	}
	defer tf.Close()
	os.Remove(tf.Name())
	var st syscall.Stat_t
	syscall.Fstat(int(tf.Fd()), &st)
	marker := fmt.Sprint(st.Ino)
	nmsg := 20 + c.Src.Int(40, "storm_messages")
	c.Logf("exec storm: %d messages with 250 descriptors each are received while children are being started", nmsg)
	c.Event("exec_storm")
	c.Fault("exec_by_another_goroutine_during_receive")
	c.MarkNonTrivial()
	stop := make(chan struct{})
	leak := make(chan string, 1)
	var wg sync.WaitGroup
	wg.Add(1)
	children := 0
	go func() {
		defer wg.Done()
		for {
			select {
			case <-stop:
				return
			default:
			}
			out, err := exec.Command(probePath, "fds", "700", "exit", "0").Output()
			if err != nil {
				continue
			}
			children++
			for _, l := range strings.Split(string(out), "\n") {
				f := strings.Fields(l)
				if len(f) >= 4 && f[0] == "fd" && f[3] == marker {
					select {
					case leak <- l:
					default:
					}
					return
				}
			}
		}
	}()
	fds := make([]int, 250)
	for i := range fds {
		fds[i] = int(tf.Fd())
	}
	buf := make([]byte, 4096)
	var verr *vcore.Violation
	for i := 0; i < nmsg && verr == nil; i++ {
		vcore.Heartbeat()
		a.SetDeadline(time.Now().Add(20 * time.Second))
		b.SetDeadline(time.Now().Add(20 * time.Second))
		if err := a.SendMsg([]byte("storm"), unixsocket.Msg{Fds: fds}); err != nil {
			verr = vcore.Violate(prop, "send_failed", "raw/storm", "send of 250 descriptors failed: %v", err)
			break
		}
		_, m, err := b.RecvMsg(buf)
		for _, fd := range m.Fds {
			syscall.Close(fd)
		}
		if err != nil || len(m.Fds) != 250 {
			verr = vcore.Violate(prop, "receive_failed", "raw/storm", "receive of 250 descriptors: %d arrived, err %v", len(m.Fds), err)
		}
	}
	close(stop)
	wg.Wait()
	if verr != nil {
		return verr
	}
	select {
	case l := <-leak:
		return vcore.Violate(prop, "not_cloexec_on_arrival", "raw/exec_during_receive", "a child program started by another goroutine while messages were being received inherited a received descriptor (%s): received descriptors are not close-on-exec from the moment they exist", l)
	default:
	}
	c.Logf("%d children started, none inherited a received descriptor", children)
	if children > 0 {
		c.Probe("exec_storm_children")
	}
	return nil
}

// maxOpenFd: the highest descriptor number open in this process
func maxOpenFd() int {
	m := 2
	ents, _ := os.ReadDir("/proc/self/fd")
	for _, e := range ents {
		if n, err := strconv.Atoi(e.Name()); err == nil && n > m {
			m = n
		}
	}
	return m
}

func c19Run(c *vcore.Ctx) *vcore.Violation {
	const prop = "C19"
	src := c.Src
	if src.Bool(1, 12, "exec_storm") {
		return c19ExecStorm(c)
	}
	gob := src.Bool(1, 2, "layer_gob")
	a, b, err := unixsocket.NewSocketPair()
	if err != nil {
		vcore.Harnessf("socketpair: %v", err)
	}
	if err := a.SetPassCred(1); err != nil {
		vcore.Harnessf("passcred: %v", err)
	}
	ends := []*s5end{{name: "A", raw: a, passcred: true}, {name: "B", raw: b}}
	if gob {
		ends[0].framed = container.VNewFramed(a)
		ends[1].framed = container.VNewFramed(b)
	}
	defer func() {
		for _, e := range ends {
			if !e.closed {
				e.raw.Close()
			}
		}
	}()
	files, ids := s5Files(6, c.Dir)
	defer func() {
		for _, f := range files {
			f.Close()
		}
	}()
	var held []int // received descriptors not yet closed by the harness
	base := countFds()
	expectFds := func(what string) *vcore.Violation {
		n := countFds()
		if n != base+len(held) {
			// a leak persists; a descriptor that is gone a moment later (the runtime's or another
			// goroutine's) is not one. What was seen is kept as a reach probe.
			listing := strings.Join(selfFdTargets(), " ")
			for i := 0; i < 10 && n != base+len(held); i++ {
				time.Sleep(20 * time.Millisecond)
				n = countFds()
			}
			if n == base+len(held) {
				c.Probe("transient_descriptor_seen")
				c.Logf("transient descriptor after %s: %s", what, listing)
				if dbg := os.Getenv("VERIF_DEBUG_FILE"); dbg != "" {
					if f, err := os.OpenFile(dbg, os.O_APPEND|os.O_CREATE|os.O_WRONLY, 0644); err == nil {
						fmt.Fprintf(f, "transient after %s (expected %d): %s\n  log: %s\n", what, base+len(held), listing, strings.Join(c.Log, " | "))
						f.Close()
					}
				}
			}
		}
		if n != base+len(held) {
			return vcore.Violate(prop, "descriptor_leak", what, "after %s the process has %d descriptors, the model expects %d (baseline %d + %d received)", what, n, base+len(held), base, len(held))
		}
		return nil
	}
	layer := "raw"
	if gob {
		layer = "gob"
	}
	c.Logf("layer=%s", layer)
	nops := 2 + src.Int(14, "nops")
	tagN := 0
	sizes := []int{1, 2, 100, 4095, 4096, 4097, 16000, 32000, 32700, 32768, 32769, 33000, 40000, 70000, 200000, 300000}
	for op := 0; op < nops; op++ {
		vcore.Heartbeat()
		from := src.Int(2, "end")
		e, peer := ends[from], ends[1-from]
		action := src.Pick("action", "send", "send", "send", "recv", "recv", "recv_small", "send_badfd", "close", "blocked_recv")
		if action == "close" && op < nops-2 {
			action = "send"
		}
		switch action {
		case "send", "send_badfd":
			if e.closed {
				continue
			}
			size := sizes[src.Int(len(sizes), "size")]
			if src.Bool(1, 2, "small") {
				size = 1 + src.Int(300, "smallsize") // zero-length datagrams: see DESIGN (Go's net layer pads or reports EOF)
			}
			nf := 0
			if src.Bool(1, 2, "withfds") {
				nf = 1 + src.Int(5, "nfds")
				if src.Bool(1, 20, "manyfds") {
					nf = 250 + src.Int(8, "manyn")
				}
			}
			m := &s5msg{size: size}
			var msg unixsocket.Msg
			for i := 0; i < nf; i++ {
				k := src.Int(len(files), "file")
				msg.Fds = append(msg.Fds, int(files[k].Fd()))
				m.ids = append(m.ids, ids[k])
			}
			if action == "send_badfd" && nf > 0 {
				msg.Fds[src.Int(nf, "badidx")] = 19999 // not an open descriptor
				c.Fault("send_closed_descriptor")
			}
			if src.Bool(1, 3, "cred") {
				m.cred = &syscall.Ucred{Pid: int32(os.Getpid()), Uid: uint32(1000 + src.Int(5, "uid")), Gid: uint32(2000 + src.Int(5, "gid"))}
				msg.Cred = m.cred
			}
			queued := 0
			for _, q := range peer.in {
				queued += q.size + 1000
			}
			if queued+size > 120000 && size < 200000 {
				continue // would block on the socket buffer: the simulator never lets an endpoint block
			}
			tagN++
			m.tag = fmt.Sprintf("t%d.", tagN)
			e.raw.SetDeadline(time.Now().Add(5 * time.Second))
			var err error
			if gob {
				// as in the protocol: the host end only sends commands, the container end only replies
				m.kind = src.Pick("kind", "open", "delete", "symlink", "execve")
				if from == 1 {
					m.kind = "reply"
				}
				if m.kind == "reply" {
					err = e.framed.VSendReply(m.tag, size, msg)
				} else {
					err = e.framed.VSendCmd(m.kind, size, m.tag, msg)
				}
			} else {
				m.data = bytes.Repeat([]byte{byte('a' + tagN%26)}, size)
				err = e.raw.SendMsg(m.data, msg)
			}
			c.Logf("%s send size=%d fds=%d cred=%v kind=%s -> err=%v", e.name, size, nf, m.cred != nil, m.kind, err)
			c.Event(fmt.Sprintf("send:%s:%d:%v", sizeClass(size), nf, err == nil))
			if err == nil {
				if action == "send_badfd" && nf > 0 {
					return vcore.Violate(prop, "bad_descriptor_sent", layer, "a message with a closed descriptor in its list was sent without error")
				}
				if !peer.closed {
					peer.in = append(peer.in, m)
				}
			} else {
				c.Fault("send_rejected")
				if size <= 30000 && action == "send" && nf <= 253 && !peer.closed {
					return vcore.Violate(prop, "send_failed", layer+"/"+sizeClass(size), "sending %d bytes with %d descriptors failed: %v", size, nf, err)
				}
			}
			if v := expectFds("send"); v != nil {
				return v
			}
		case "recv", "recv_small":
			if !e.closed && !peer.closed && len(e.in) == 0 && src.Bool(1, 3, "recv_nothing_queued") {
				// a receive with nothing queued that gives up at its deadline: a failed receive that
				// consumed nothing must leave the stream (and the stateful gob decoder) as it was
				e.raw.SetDeadline(time.Now().Add(3 * time.Millisecond))
				var err error
				if gob {
					if from == 0 {
						_, _, _, err = e.framed.VRecvReply()
					} else {
						_, _, _, _, err = e.framed.VRecvCmd()
					}
				} else {
					_, _, err = e.raw.RecvMsg(make([]byte, 4096))
				}
				e.raw.SetDeadline(time.Time{})
				c.Fault("receive_times_out_with_nothing_queued")
				c.Event("recv_timeout")
				c.Logf("%s recv with nothing queued -> err=%v", e.name, err)
				if err == nil {
					return vcore.Violate(prop, "wrong_message", layer+"/phantom", "a receive with nothing queued returned a message")
				}
				continue
			}
			if e.closed || len(e.in) == 0 {
				continue // never block: receive only what the model says is queued
			}
			want := e.in[0]
			e.in = e.in[1:]
			bufSize := 1 << 20
			if action == "recv_small" && !gob && want.size > 1 {
				bufSize = 1 + src.Int(want.size-1, "bufsize")
				c.Fault("receive_buffer_too_small")
			}
			var got unixsocket.Msg
			var err error
			var n int
			var data []byte
			var gtag string
			var gsize int
			var gk string
			// the receiver's descriptor table has room for only some of the message's descriptors (its
			// RLIMIT_NOFILE is nearly reached): the kernel installs what fits and flags the control data as
			// truncated. Such a message is not intact; it may be rejected, it may not be handed on short.
			tableFull := false
			var oldLim syscall.Rlimit
			if len(want.ids) >= 2 && src.Bool(1, 4, "descriptor_table_full") {
				room := src.Int(len(want.ids), "table_room")
				if syscall.Getrlimit(syscall.RLIMIT_NOFILE, &oldLim) == nil {
					lim := oldLim
					lim.Cur = uint64(maxOpenFd() + 1 + room)
					if lim.Cur < oldLim.Cur && syscall.Setrlimit(syscall.RLIMIT_NOFILE, &lim) == nil {
						tableFull = true
						c.Fault("receiver_descriptor_table_full")
						c.Logf("%s receives with room for %d of %d descriptors", e.name, room, len(want.ids))
					}
				}
			}
			err = c19Timed(e.raw, func() error {
				var err error
				if gob {
					if want.kind == "reply" {
						gtag, gsize, got, err = e.framed.VRecvReply()
					} else {
						gk, gtag, gsize, got, err = e.framed.VRecvCmd()
					}
				} else {
					data = make([]byte, bufSize)
					n, got, err = e.raw.RecvMsg(data)
				}
				return err
			})
			if tableFull {
				syscall.Setrlimit(syscall.RLIMIT_NOFILE, &oldLim)
			}
			if gob && want.kind != "reply" && err == nil && gk != want.kind {
				return vcore.Violate(prop, "wrong_message", "gob/kind", "received a %s command, the head of the queue is %s", gk, want.kind)
			}
			c.Logf("%s recv buf=%d -> n=%d fds=%d cred=%v err=%v (head: size=%d fds=%d)", e.name, bufSize, n, len(got.Fds), got.Cred != nil, err, want.size, len(want.ids))
			c.Event(fmt.Sprintf("recv:%s:%v", sizeClass(want.size), err == nil))
			held = append(held, got.Fds...)
			if err != nil {
				// a message may be rejected, never delivered wrong; its descriptors must not stay open
				for _, fd := range got.Fds {
					syscall.Close(fd)
				}
				held = held[:len(held)-len(got.Fds)]
				if v := expectFds("rejected receive"); v != nil {
					v.Site = layer + "/rejected_receive"
					return v
				}
				fits := want.size <= bufSize && (!gob || want.size < 30000) && !tableFull
				if fits && want.size > 0 {
					return vcore.Violate(prop, "receive_failed", layer+"/"+sizeClass(want.size), "receiving a queued message of %d bytes into a %d byte buffer failed: %v", want.size, bufSize, err)
				}
				if os.IsTimeout(err) {
					return vcore.Violate(prop, "message_lost", layer, "the model has a queued message of %d bytes but nothing arrived", want.size)
				}
				continue
			}
			if gob {
				if gtag != want.tag || gsize != want.size {
					return vcore.Violate(prop, "wrong_message", "gob/payload", "received tag %q size %d, the head of the queue is tag %q size %d", gtag, gsize, want.tag, want.size)
				}
			} else {
				if want.size > bufSize {
					return vcore.Violate(prop, "truncated_delivery", "raw", "a %d byte message was delivered into a %d byte buffer as if whole (n=%d)", want.size, bufSize, n)
				}
				if n != want.size || !bytes.Equal(data[:n], want.data) {
					return vcore.Violate(prop, "wrong_message", "raw/payload", "received %d bytes, the head of the queue has %d bytes (content equal: %v)", n, want.size, bytes.Equal(data[:n], want.data))
				}
			}
			if len(got.Fds) != len(want.ids) {
				return vcore.Violate(prop, "wrong_descriptors", layer+"/count", "received %d descriptors, %d were attached", len(got.Fds), len(want.ids))
			}
			for i, fd := range got.Fds {
				var st syscall.Stat_t
				if err := syscall.Fstat(fd, &st); err != nil || st.Ino != want.ids[i] {
					return vcore.Violate(prop, "wrong_descriptors", layer+"/identity", "descriptor %d of the message is inode %d, the sender attached inode %d (%v)", i, st.Ino, want.ids[i], err)
				}
				fl, _ := fcntlGetfd(fd)
				if fl&syscall.FD_CLOEXEC == 0 {
					return vcore.Violate(prop, "not_cloexec", layer, "received descriptor %d is not close-on-exec", i)
				}
			}
			if e.passcred {
				if got.Cred == nil {
					return vcore.Violate(prop, "credentials", layer+"/missing", "SO_PASSCRED is on but no credentials were delivered")
				}
				if want.cred != nil && (*got.Cred != *want.cred) {
					return vcore.Violate(prop, "credentials", layer+"/changed", "credentials %+v, the sender specified %+v", *got.Cred, *want.cred)
				}
				if want.cred == nil && (int(got.Cred.Pid) != os.Getpid() || got.Cred.Uid != uint32(os.Getuid())) {
					return vcore.Violate(prop, "credentials", layer+"/default", "default credentials %+v are not the sender's", *got.Cred)
				}
			}
			if v := expectFds("receive"); v != nil {
				return v
			}
			// the harness (the caller) closes what it was handed
			for _, fd := range got.Fds {
				syscall.Close(fd)
			}
			held = held[:len(held)-len(got.Fds)]
		case "blocked_recv":
			// a receiver already blocked in RecvMsg when the event arrives: a message from the peer, the
			// peer closing, or its own end being closed by another goroutine
			if e.closed || peer.closed || len(e.in) != 0 || gob {
				continue
			}
			how := src.Pick("release", "message", "peer_close", "own_close")
			if how != "message" && op < nops-2 {
				how = "message"
			}
			type rr struct {
				n   int
				m   unixsocket.Msg
				err error
				buf []byte
			}
			ch := make(chan rr, 1)
			e.raw.SetDeadline(time.Now().Add(10 * time.Second))
			go func() {
				buf := make([]byte, 1<<16)
				n, m, err := e.raw.RecvMsg(buf)
				ch <- rr{n, m, err, buf}
			}()
			time.Sleep(2 * time.Millisecond)
			c.Fault("receiver_blocked_before_event")
			c.Event("blocked_recv:" + how)
			size := 1 + src.Int(2000, "bsize")
			payload := bytes.Repeat([]byte{'B'}, size)
			var fdmsg unixsocket.Msg
			var wantIno uint64
			switch how {
			case "message":
				kf := src.Int(len(files), "bfile")
				fdmsg.Fds, wantIno = []int{int(files[kf].Fd())}, ids[kf]
				peer.raw.SetDeadline(time.Now().Add(5 * time.Second))
				if err := peer.raw.SendMsg(payload, fdmsg); err != nil {
					return vcore.Violate(prop, "send_failed", "raw/blocked_receiver", "send to a blocked receiver failed: %v", err)
				}
			case "peer_close":
				peer.raw.Close()
				peer.closed, peer.in, e.in = true, nil, nil
				base--
			case "own_close":
				e.raw.Close()
				e.closed, e.in, peer.in = true, nil, nil
				base--
			}
			var got rr
			select {
			case got = <-ch:
			case <-time.After(8 * time.Second):
				return vcore.Violate(prop, "receiver_stuck", "raw/"+how, "a receiver blocked in RecvMsg was not released by %s", how)
			}
			c.Logf("%s blocked recv released by %s -> n=%d fds=%d err=%v", e.name, how, got.n, len(got.m.Fds), got.err)
			if how == "message" {
				if got.err != nil || got.n != size || !bytes.Equal(got.buf[:got.n], payload) || len(got.m.Fds) != 1 {
					for _, fd := range got.m.Fds {
						syscall.Close(fd)
					}
					return vcore.Violate(prop, "wrong_message", "raw/blocked_receiver", "blocked receiver got n=%d fds=%d err=%v for a %d byte message with one descriptor", got.n, len(got.m.Fds), got.err, size)
				}
				var st syscall.Stat_t
				syscall.Fstat(got.m.Fds[0], &st)
				syscall.Close(got.m.Fds[0])
				if st.Ino != wantIno {
					return vcore.Violate(prop, "wrong_descriptors", "raw/blocked_receiver", "descriptor is inode %d, sender attached %d", st.Ino, wantIno)
				}
			} else if got.err == nil {
				return vcore.Violate(prop, "wrong_message", "raw/"+how, "a receiver released by %s got a message (n=%d)", how, got.n)
			}
			if v := expectFds("blocked receive"); v != nil {
				return v
			}
		case "close":
			if e.closed {
				continue
			}
			c.Logf("%s close", e.name)
			c.Fault("end_closed")
			e.raw.Close()
			e.closed = true
			e.in = nil
			// a unix socket closed with unread input resets the peer: what was queued towards the
			// peer may be reported as ECONNRESET instead of being delivered, so nothing more is expected
			peer.in = nil
			base-- // the socket descriptor itself
			if v := expectFds("close"); v != nil {
				return v
			}
		}
	}
	// drain: everything still queued must arrive intact, in order
	for _, e := range ends {
		for !e.closed && len(e.in) > 0 {
			want := e.in[0]
			e.in = e.in[1:]
			var got unixsocket.Msg
			var gtag string
			var gsize, n int
			err := c19Timed(e.raw, func() error {
				var err error
				if gob {
					if want.kind == "reply" {
						gtag, gsize, got, err = e.framed.VRecvReply()
					} else {
						_, gtag, gsize, got, err = e.framed.VRecvCmd()
					}
				} else {
					data := make([]byte, 1<<20)
					n, got, err = e.raw.RecvMsg(data)
				}
				return err
			})
			if gob && err == nil && (gtag != want.tag || gsize != want.size) {
				return vcore.Violate(prop, "wrong_message", "gob/drain", "draining: received tag %q size %d, expected tag %q size %d", gtag, gsize, want.tag, want.size)
			}
			if !gob && err == nil && n != want.size {
				return vcore.Violate(prop, "wrong_message", "raw/drain", "draining: received %d bytes, expected %d", n, want.size)
			}
			for _, fd := range got.Fds {
				syscall.Close(fd)
			}
			if err != nil && want.size > 0 && want.size < 30000 {
				return vcore.Violate(prop, "receive_failed", layer+"/drain", "draining a queued %d byte message failed: %v", want.size, err)
			}
			if err != nil && (os.IsTimeout(err) || strings.Contains(err.Error(), "i/o timeout")) {
				return vcore.Violate(prop, "message_lost", layer, "draining: the model has a queued message of %d bytes but nothing arrived", want.size)
			}
		}
	}
	if v := expectFds("drain"); v != nil {
		return v
	}
	return nil
}

// c19Timed runs one receive of a message the model says is queued. Deadlines only exist so that a
// lost message ends the run instead of hanging it; they are real time, and on an overloaded machine
// this process can be descheduled past a short deadline before the read is even attempted (Go then
// fails the read although data is queued). A timed-out receive consumed nothing, so it is repeated
// once with a long deadline: only a message that is really not there fails twice.
func c19Timed(s *unixsocket.Socket, recv func() error) error {
	s.SetDeadline(time.Now().Add(5 * time.Second))
	err := recv()
	if err != nil && (errors.Is(err, os.ErrDeadlineExceeded) || strings.Contains(err.Error(), "i/o timeout")) {
		vcore.Heartbeat()
		s.SetDeadline(time.Now().Add(40 * time.Second))
		err = recv()
	}
	s.SetDeadline(time.Time{})
	return err
}

func selfFdTargets() []string {
	var o []string
	ents, _ := os.ReadDir("/proc/self/fd")
	for _, e := range ents {
		t, _ := os.Readlink("/proc/self/fd/" + e.Name())
		o = append(o, e.Name()+"="+t)
	}
	return o
}

func sizeClass(n int) string {
	switch {
	case n == 0:
		return "0"
	case n < 4096:
		return "small"
	case n <= 30000:
		return "medium"
	case n <= 32768:
		return "near_cap"
	case n <= 212992:
		return "above_cap"
	}
	return "above_sndbuf"
}

func init() {
	register(&vcore.Prop{
		ID: "C19", Level: "exploration", Worlds: "S5",
		Rule: "one run = a history of 2..15 operations {send(size from 0..300000 incl. 4095/4096/4097 and 32768+-1, 0..5 or 250..257 descriptors, optional explicit credentials, optionally a closed descriptor in the list), recv(full-size or too small buffer), close(end)} on both ends of one real SEQPACKET pair, on the raw pkg/unixsocket layer or the gob-framed layer of package container (five message shapes, first use of a type may fall on a rejected send); every step is compared with a FIFO reference model of (bytes, open-file identities, credentials), and the process descriptor count is compared with the model after every step. distinct = hash of (operation, size class, descriptor count, outcome) sequence; non-trivial = a rejected send, too small buffer, closed descriptor or closed end occurred",
		Components: map[string]string{
			"pkg/unixsocket (SendMsg, RecvMsg, NewSocketPair, SetPassCred)": "real",
			"container gob framing (socket.SendMsg/RecvMsg, 32 KiB cap)":    "real, reached through a tagged export of its constructor",
			"kernel SEQPACKET socket":                                       "real",
			"the two endpoints (who sends/receives/closes what, when)":      "simulator, one choice stream; receives are issued only for messages the model says are queued, so nothing blocks",
		},
		Assumptions: []string{"sequential histories: the two ends are driven by one simulator thread, so the schedule is the operation order"},
		Quick:       vcore.Budget{Wall: 25 * time.Second, Shards: 16},
		Thorough:    vcore.Budget{Wall: 10 * time.Minute, Shards: 16},
		Init:        func(dir, tier string) error { probePath = os.Getenv("VERIF_PROBE"); return nil },
		Run:         c19Run, StallLimit: 60 * time.Second,
	})
}
