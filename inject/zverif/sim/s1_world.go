//go:build verif

package sim

import (
	"sort"
	"errors"
	"fmt"
	"io"
	"net"
	"os"
	"runtime"
	"strings"
	"sync"
	"sync/atomic"
	"syscall"
	"testing/synctest"
	"time"

	"github.com/criyle/go-sandbox/container"
	"github.com/criyle/go-sandbox/pkg/forkexec"
	"github.com/criyle/go-sandbox/pkg/unixsocket"
	"github.com/criyle/go-sandbox/zverif/vcore"
	"golang.org/x/sys/unix"
)

// ---------------------------------------------------------------------------------------------
// World S1: host side and container side of the RPC in one process, inside a synctest bubble.
// Transport, processes and clock are simulator-owned; everything else is the repository's code.
// ---------------------------------------------------------------------------------------------

type s1pkt struct {
	data []byte
	fds  []int
	cred *syscall.Ucred
}

func (p *s1pkt) drop() {
	for _, f := range p.fds {
		syscall.Close(f)
	}
	p.fds = nil
}

// s1dir is one direction of the SEQPACKET pair: reliable, ordered, delay chosen by the simulator.
type s1dir struct {
	name       string
	inflight   []*s1pkt // sent, not yet visible to the receiver
	delivered  []*s1pkt // visible to the receiver
	wake       chan struct{}
	sendClosed bool // the sending end is closed
	recvClosed bool // the receiving end is closed
}

func (d *s1dir) signal() {
	close(d.wake)
	d.wake = make(chan struct{})
}

type s1end struct {
	w         *s1world
	name      string
	out, in   *s1dir
	closed    bool
	deadline  time.Time // read deadline
	wdeadline time.Time // write deadline: a send after it fails, as on a real socket (sends never block here)
	passcred  bool
	peerPid   int32
	fdBase    int
	// who receives on this end and how often it has entered SimRecv (for the late-reset event)
	recvGoid     int
	entrySeq     int
	forceTimeout bool
}

// what the real net package reports after a local Close (callers may test for net.ErrClosed)
var errSimClosed = fmt.Errorf("read/write on simulated socket: %w", net.ErrClosed)

func (e *s1end) SimSend(b []byte, m unixsocket.Msg) error {
	w := e.w
	w.mu.Lock()
	defer w.mu.Unlock()
	if e.closed {
		return errSimClosed
	}
	if e.out.recvClosed {
		return syscall.EPIPE
	}
	if !e.wdeadline.IsZero() && !time.Now().Before(e.wdeadline) {
		return os.ErrDeadlineExceeded
	}
	if len(m.Fds) > 253 {
		return syscall.EINVAL // SCM_MAX_FD: what sendmsg(2) answers to a longer SCM_RIGHTS list
	}
	p := &s1pkt{data: append([]byte(nil), b...)}
	for _, fd := range m.Fds {
		// descriptors in transit get unique high numbers (per direction), so that what each
		// receiver did with them can be audited at the end of the run without ambiguity
		w.fdSeq++
		nfd, err := unix.FcntlInt(uintptr(fd), unix.F_DUPFD_CLOEXEC, e.fdBase+w.fdSeq)
		if err != nil {
			p.drop()
			return err
		}
		p.fds = append(p.fds, nfd)
	}
	if m.Cred != nil {
		c := *m.Cred
		p.cred = &c
	}
	e.out.inflight = append(e.out.inflight, p)
	w.ev(e.name + ">send")
	return nil
}

func (e *s1end) SimRecv(b []byte) (int, unixsocket.Msg, error) {
	w := e.w
	gid := goid()
	w.mu.Lock()
	e.recvGoid = gid
	e.entrySeq++
	e.in.signal() // a clearing of the deadline may be waiting for this receiver to be back (SimSetDeadline)
	w.mu.Unlock()
	for {
		w.mu.Lock()
		if e.closed {
			w.mu.Unlock()
			return 0, unixsocket.Msg{}, errSimClosed
		}
		if e.forceTimeout {
			e.forceTimeout = false
			w.mu.Unlock()
			return 0, unixsocket.Msg{}, os.ErrDeadlineExceeded
		}
		if len(e.in.delivered) > 0 {
			p := e.in.delivered[0]
			e.in.delivered = e.in.delivered[1:]
			w.mu.Unlock()
			if len(p.data) > len(b) {
				p.drop()
				return 0, unixsocket.Msg{}, errors.New("unix socket message truncated (sim)")
			}
			n := copy(b, p.data)
			msg := unixsocket.Msg{Fds: p.fds, Cred: p.cred}
			if e.passcred && msg.Cred == nil {
				msg.Cred = &syscall.Ucred{Pid: e.peerPid}
			}
			if !e.passcred {
				msg.Cred = nil
			}
			return n, msg, nil
		}
		if e.in.sendClosed && len(e.in.inflight) == 0 {
			w.mu.Unlock()
			return 0, unixsocket.Msg{}, io.EOF
		}
		wake := e.in.wake
		dl := e.deadline
		w.mu.Unlock()
		if dl.IsZero() {
			<-wake
			continue
		}
		d := time.Until(dl)
		if d <= 0 {
			return 0, unixsocket.Msg{}, os.ErrDeadlineExceeded
		}
		t := time.NewTimer(d)
		select {
		case <-wake:
			t.Stop()
		case <-t.C:
			return 0, unixsocket.Msg{}, os.ErrDeadlineExceeded
		}
	}
}

func (e *s1end) SimClose() error {
	w := e.w
	w.mu.Lock()
	defer w.mu.Unlock()
	return e.closeLocked()
}

func (e *s1end) closeLocked() error {
	if e.closed {
		return errSimClosed
	}
	e.closed = true
	e.out.sendClosed = true
	e.in.recvClosed = true
	for _, p := range e.in.inflight {
		p.drop()
	}
	for _, p := range e.in.delivered {
		p.drop()
	}
	e.in.inflight, e.in.delivered = nil, nil
	e.in.signal()
	e.out.signal()
	e.w.ev(e.name + ">close")
	return nil
}

func (e *s1end) SimSetDeadline(which int, t time.Time) error {
	w := e.w
	gid := goid()
	w.mu.Lock()
	defer w.mu.Unlock()
	if which&2 != 0 && !e.closed {
		e.wdeadline = t
	}
	if which&1 == 0 {
		if e.closed {
			return errSimClosed
		}
		return nil
	}
	if lag := w.resetLag; lag > 0 && t.IsZero() && !e.closed {
		// The late-reset event: the goroutine about to clear the deadline was descheduled for `lag`
		// first (any goroutine can be, between any two statements), and the receiver of this end got
		// the processor before it. No simulated sleep is used for that (the caller may hold a mutex of
		// the code under test, and a goroutine waiting for a mutex is not durably blocked for
		// synctest): the clearing waits, on a channel, until the receiver is back in SimRecv, and the
		// receiver is then told that its deadline has passed if it would have within `lag`.
		w.resetLag = 0
		if gid != e.recvGoid {
			for e.entrySeq <= w.lagSeq && !e.closed {
				wake := e.in.wake
				w.mu.Unlock()
				<-wake
				w.mu.Lock()
			}
			if !e.closed && !e.deadline.IsZero() && time.Until(e.deadline) <= lag {
				e.forceTimeout = true
				w.c.SimTime += lag
			}
		}
		// (the receiver clearing its own deadline: nothing is blocked on it, the lag changes nothing)
	}
	if e.closed {
		return errSimClosed
	}
	e.deadline = t
	e.in.signal() // re-evaluate blocked receivers
	return nil
}

func (e *s1end) SimSetPassCred(option int) error {
	e.w.mu.Lock()
	e.passcred = option != 0
	e.w.mu.Unlock()
	return nil
}

// ---- stub processes --------------------------------------------------------------------------

const (
	stRunning = iota
	stExited
	stKilled
)

type s1child struct {
	pid    int
	state  int
	code   int
	reaped bool
	done   chan struct{}
	runner forkexec.Runner
}

// execPlan: what the launch of the next Execve does (forkexec's documented contract).
type execPlan int

const (
	planRun            execPlan = iota // starts and runs until the simulator lets it exit (or it is killed)
	planRunForever                     // never exits by itself
	planFailBeforeSync                 // a launch step fails before the sync point
	planFailAfterSync                  // exec fails after the callback approved
)

type s1procs struct {
	w        *s1world
	children []*s1child
	nextPid  int
	plan     execPlan
	code     int
	anyWake  chan struct{}
	starts   int
	syncSeen []int
}

func (p *s1procs) Start(r *forkexec.Runner) (int, error) {
	w := p.w
	w.mu.Lock()
	p.starts++
	plan := p.plan
	p.nextPid++
	pid := p.nextPid
	w.mu.Unlock()
	w.ev("srv:start")
	// the real Start prepares argv/env first (and fails or panics there on malformed lists)
	if err := forkexec.VPrepareExec(r.Args, r.Env); err != nil {
		return 0, err
	}
	if plan == planFailBeforeSync {
		w.c.Fault("launch_fail_before_sync")
		return 0, forkexec.ChildError{Err: syscall.EACCES, Location: forkexec.LocChdir}
	}
	if r.SyncFunc != nil {
		w.mu.Lock()
		p.syncSeen = append(p.syncSeen, pid)
		w.mu.Unlock()
		if err := r.SyncFunc(pid); err != nil {
			return 0, err
		}
	}
	if plan == planFailAfterSync {
		w.c.Fault("exec_fail_after_sync")
		return 0, forkexec.ChildError{Err: syscall.ENOEXEC, Location: forkexec.LocExecve}
	}
	w.mu.Lock()
	ch := &s1child{pid: pid, state: stRunning, code: p.code, done: make(chan struct{}), runner: *r}
	p.children = append(p.children, ch)
	w.mu.Unlock()
	return pid, nil
}

func (p *s1procs) killLocked(ch *s1child) {
	if ch.state == stRunning {
		ch.state = stKilled
		close(ch.done)
		close(p.anyWake)
		p.anyWake = make(chan struct{})
	}
}

func (p *s1procs) Kill(pid int, sig syscall.Signal) error {
	w := p.w
	w.mu.Lock()
	defer w.mu.Unlock()
	w.ev("srv:kill")
	found := false
	for _, ch := range p.children {
		if ch.reaped {
			continue
		}
		if pid == -1 || ch.pid == pid || -ch.pid == pid {
			found = true
			if sig == syscall.SIGKILL {
				p.killLocked(ch)
			}
		}
	}
	if !found {
		return syscall.ESRCH
	}
	return nil
}

func (p *s1procs) status(ch *s1child) syscall.WaitStatus {
	if ch.state == stKilled {
		return syscall.WaitStatus(uint32(syscall.SIGKILL))
	}
	return syscall.WaitStatus(uint32(ch.code&0xff) << 8)
}

func (p *s1procs) Wait4(pid int, ws *syscall.WaitStatus, opt int, ru *syscall.Rusage) (int, error) {
	if pid == container.VPoisonPid {
		runtime.Goexit()
	}
	w := p.w
	for {
		w.mu.Lock()
		var wait chan struct{}
		unreaped := 0
		for _, ch := range p.children {
			if ch.reaped {
				continue
			}
			if pid > 0 && ch.pid != pid {
				continue
			}
			unreaped++
			if ch.state != stRunning {
				ch.reaped = true
				if ws != nil {
					*ws = p.status(ch)
				}
				if ru != nil {
					*ru = syscall.Rusage{}
					ru.Utime = syscall.Timeval{Usec: 1000}
					ru.Maxrss = 1024
				}
				w.mu.Unlock()
				return ch.pid, nil
			}
			if pid > 0 {
				wait = ch.done
			}
		}
		if unreaped == 0 {
			w.mu.Unlock()
			return -1, syscall.ECHILD
		}
		if wait == nil {
			wait = p.anyWake
		}
		w.mu.Unlock()
		<-wait
	}
}

// HostKill: SIGKILL of the container init: every process of its pid namespace dies, its socket end closes.
func (p *s1procs) HostKill() error {
	w := p.w
	w.mu.Lock()
	defer w.mu.Unlock()
	w.c.Event("host:killinit")
	w.initKilled = true
	for _, ch := range p.children {
		p.killLocked(ch)
		ch.reaped = true
	}
	w.srvEnd.closeLocked()
	return nil
}

func (p *s1procs) HostWait() (*os.ProcessState, error) { return nil, nil }

func (p *s1procs) running() []*s1child {
	var r []*s1child
	for _, ch := range p.children {
		if ch.state == stRunning {
			r = append(r, ch)
		}
	}
	return r
}

// ---- world ------------------------------------------------------------------------------------

type s1msg struct {
	end, dir, kind string
}

type s1world struct {
	c       *vcore.Ctx
	mu      sync.Mutex
	h2c     *s1dir
	c2h     *s1dir
	hostEnd *s1end
	srvEnd  *s1end
	procs   *s1procs
	env     container.Environment
	hostSoc *unixsocket.Socket
	srvSoc  *unixsocket.Socket

	serveDone       chan struct{}
	serveErr        error
	servePanic      any
	initKilled      bool
	initKilledEarly bool // the container was gone before the final Destroy (its descriptors died with it)

	msgs          []s1msg
	transportLost bool // a close fault was injected / Destroy called
	fdSeq         int
	curOp         int           // index of the API call in flight (set by the simulator)
	srvQuiet      atomic.Bool   // Destroy is under way (see ev)
	resetLag      time.Duration // the next clearing of a deadline takes effect this much later (the caller is descheduled)
	lagSeq        int           // SimRecv entry count of the host end when resetLag was armed
	hostSendOps   []int         // op index of every host->container message, in order
	lastSrvRecvOp int           // op index whose message the server received last

	// select seam (container.VSelHook): goroutines of the code under test parked in front of a select
	selMode   int // selFree / selControlled / selDead
	selParked []*selPark
	selTried  map[string]map[int]bool // goroutine+site -> cases tried since the last other event
	selRR     map[string]int
	selLast   string // goroutine+site released by the last select event (did it come back? see selOffers)
}

const (
	selFree       = iota // nobody schedules: a parked goroutine tries its cases round-robin, with (simulated) pauses in between
	selControlled        // the simulator names the goroutine and the case (drive)
	selDead              // the world is gone: block for ever
)

type selPark struct {
	key  string // goroutine id + site
	site string
	n    int
	ch   chan int
}

// selHook is container.VSelHook: called by a goroutine of the code under test in front of a select that seamgen
// rewrote; returns the index of the one case that is enabled in this round.
func (w *s1world) selHook(site string, n int) int {
	key := fmt.Sprintf("%d/%s", goid(), site)
	p := &selPark{key: key, site: site, n: n, ch: make(chan int, 1)}
	w.mu.Lock()
	mode := w.selMode
	if mode == selDead {
		w.mu.Unlock()
		select {}
	}
	w.selParked = append(w.selParked, p)
	rr := w.selRR[key]
	w.selRR[key] = rr + 1
	w.mu.Unlock()
	if mode == selControlled {
		return <-p.ch
	}
	// free mode: the first round of tries comes at once, later ones after growing pauses of simulated time
	pause := time.Millisecond << min(rr/n, 10)
	if rr < n {
		pause = time.Microsecond
	}
	t := time.NewTimer(pause)
	select {
	case k := <-p.ch:
		t.Stop()
		return k
	case <-t.C:
		w.mu.Lock()
		for i, q := range w.selParked {
			if q == p {
				w.selParked = append(w.selParked[:i], w.selParked[i+1:]...)
				break
			}
		}
		w.mu.Unlock()
		select {
		case k := <-p.ch: // released at the same moment
			return k
		default:
		}
		return rr % n
	}
}

// selSetMode switches between simulator-scheduled and free-running selects; goroutines parked without a timer
// are sent on their way when nobody is going to schedule them any more.
func (w *s1world) selSetMode(m int) {
	w.mu.Lock()
	old := w.selMode
	w.selMode = m
	var wake []*selPark
	if old == selControlled && m != selControlled {
		wake, w.selParked = w.selParked, nil
	}
	w.selTried = map[string]map[int]bool{}
	w.mu.Unlock()
	for _, p := range wake {
		p.ch <- 0
	}
}

// selOffers lists (parked goroutine, case) pairs not tried since the last other event.
func (w *s1world) selOffers() (ps []*selPark, ks []int) {
	w.mu.Lock()
	defer w.mu.Unlock()
	if w.selLast != "" {
		// the goroutine released last is not back in front of the same select: its case was ready and it
		// moved on, which is an event like any other for everybody else (a try that found nothing is not)
		back := false
		for _, p := range w.selParked {
			back = back || p.key == w.selLast
		}
		if !back {
			w.selTried = map[string]map[int]bool{}
		}
		w.selLast = ""
	}
	// the order in which goroutines arrived here after the last event is the Go scheduler's: offers are
	// listed by site name, never by arrival (one goroutine per site: calls are serialised by the environment)
	parked := append([]*selPark(nil), w.selParked...)
	sort.SliceStable(parked, func(i, j int) bool { return parked[i].site < parked[j].site })
	for _, p := range parked {
		for k := 0; k < p.n; k++ {
			if !w.selTried[p.key][k] {
				ps, ks = append(ps, p), append(ks, k)
			}
		}
	}
	return
}

// selRelease lets a parked goroutine try case k.
func (w *s1world) selRelease(p *selPark, k int) {
	w.mu.Lock()
	found := false
	for i, q := range w.selParked {
		if q == p {
			w.selParked = append(w.selParked[:i], w.selParked[i+1:]...)
			found = true
			break
		}
	}
	if w.selTried[p.key] == nil {
		w.selTried[p.key] = map[int]bool{}
	}
	w.selTried[p.key][k] = true
	w.selLast = p.key
	w.mu.Unlock()
	if found {
		p.ch <- k
	}
}

// selOtherEvent: something else happened; every case of every parked select is worth a new try.
func (w *s1world) selOtherEvent() {
	w.mu.Lock()
	w.selLast = ""
	w.selTried = map[string]map[int]bool{}
	w.mu.Unlock()
}

func newS1World(c *vcore.Ctx, conf *container.VServerConf) (*s1world, error) {
	w := &s1world{c: c}
	w.h2c = &s1dir{name: "h2c", wake: make(chan struct{})}
	w.c2h = &s1dir{name: "c2h", wake: make(chan struct{})}
	w.hostEnd = &s1end{w: w, name: "host", out: w.h2c, in: w.c2h, passcred: true, peerPid: 4242, fdBase: fdBaseH2C}
	w.srvEnd = &s1end{w: w, name: "srv", out: w.c2h, in: w.h2c, fdBase: fdBaseC2H}
	w.procs = &s1procs{w: w, nextPid: 100, anyWake: make(chan struct{})}
	w.hostSoc = unixsocket.NewSimSocket(w.hostEnd)
	w.srvSoc = unixsocket.NewSimSocket(w.srvEnd)
	container.VInstall(w.procs, w.observe)
	w.selTried, w.selRR = map[string]map[int]bool{}, map[string]int{}
	container.VMuForget()
	container.VSelHook = w.selHook
	w.serveDone = make(chan struct{})
	go func() {
		defer close(w.serveDone)
		defer func() {
			if r := recover(); r != nil {
				w.mu.Lock()
				w.servePanic = r
				w.mu.Unlock()
				// a panic in the real init ends the container: everything inside dies, socket closes
				w.procs.HostKill()
			}
		}()
		err := container.VServe(w.srvSoc, conf)
		w.mu.Lock()
		w.serveErr = err
		w.mu.Unlock()
		// Init's defer: os.Exit => socket closes, pid namespace torn down
		w.procs.HostKill()
	}()
	env, err := container.VNewHost(w.hostSoc)
	if err != nil {
		return nil, err
	}
	w.env = env
	return w, nil
}

// ev records an event of the run's event log (the measure of distinct interleavings and the
// determinism self-test's witness). Once Destroy is under way the container side is being killed
// concurrently with the host's teardown: what it still manages to do in its last moments is ordered by
// the Go scheduler, not by the simulator, and no oracle looks at it; it stays out of the log.
func (w *s1world) ev(name string) {
	if w.srvQuiet.Load() && strings.HasPrefix(name, "srv") {
		return
	}
	w.c.Event(name)
}

func (w *s1world) observe(sock *unixsocket.Socket, dir, kind string, err error) {
	end := "host"
	if sock == w.srvSoc {
		end = "srv"
	} else if sock != w.hostSoc {
		return // a stale goroutine of an earlier world
	}
	w.mu.Lock()
	w.msgs = append(w.msgs, s1msg{end, dir, kind})
	if end == "host" && dir == "send" {
		w.hostSendOps = append(w.hostSendOps, w.curOp)
	}
	if end == "srv" && dir == "recv" && err == nil && len(w.hostSendOps) > 0 {
		w.lastSrvRecvOp = w.hostSendOps[0]
		w.hostSendOps = w.hostSendOps[1:]
	}
	w.mu.Unlock()
	if err == nil {
		w.ev(end + ":" + dir + ":" + kind)
	}
}

func (w *s1world) serverExited() (bool, string) {
	select {
	case <-w.serveDone:
		w.mu.Lock()
		defer w.mu.Unlock()
		if w.servePanic != nil {
			return true, fmt.Sprintf("panic: %v", w.servePanic)
		}
		return true, fmt.Sprintf("%v", w.serveErr)
	default:
		return false, ""
	}
}

// deliver makes the head of a direction visible to its receiver.
func (w *s1world) deliver(d *s1dir) {
	w.mu.Lock()
	defer w.mu.Unlock()
	if len(d.inflight) == 0 {
		return
	}
	p := d.inflight[0]
	d.inflight = d.inflight[1:]
	if d.recvClosed {
		p.drop()
		return
	}
	d.delivered = append(d.delivered, p)
	d.signal()
	w.c.Event("deliver:" + d.name)
}

func (w *s1world) childExit(ch *s1child) {
	w.mu.Lock()
	defer w.mu.Unlock()
	if ch.state == stRunning {
		ch.state = stExited
		close(ch.done)
		close(w.procs.anyWake)
		w.procs.anyWake = make(chan struct{})
		w.c.Event("child:exit")
	}
}

func (w *s1world) closeEnd(e *s1end) {
	w.mu.Lock()
	defer w.mu.Unlock()
	w.transportLost = true
	e.closeLocked()
}

func (w *s1world) pending() (h2c, c2h int, running []*s1child) {
	w.mu.Lock()
	defer w.mu.Unlock()
	return len(w.h2c.inflight), len(w.c2h.inflight), w.procs.running()
}

func (w *s1world) teardown() {
	w.mu.Lock()
	w.hostEnd.closeLocked()
	w.srvEnd.closeLocked()
	for _, ch := range w.procs.children {
		w.procs.killLocked(ch)
	}
	w.mu.Unlock()
	synctest.Wait()
	// selects still parked get to try each of their cases a few more times (everything is closed now: whoever
	// watches a done channel leaves), then the world is dead
	for round := 0; round < 12; round++ {
		w.mu.Lock()
		parked := w.selParked
		w.selParked = nil
		w.mu.Unlock()
		if len(parked) == 0 {
			break
		}
		for _, p := range parked {
			p.ch <- round % p.n
		}
		synctest.Wait()
	}
	w.selSetMode(selDead)
	synctest.Wait()
	container.VRetireServer()
}

const (
	fdBaseC2H = 8000  // descriptors travelling container -> host (audited as host-side ownership)
	fdBaseH2C = 14000 // descriptors travelling host -> container (audited as container-side ownership)
)

// transitFds lists open descriptors in the transit ranges.
func transitFds() (c2h, h2c []int) {
	ents, err := os.ReadDir("/proc/self/fd")
	if err != nil {
		return
	}
	for _, e := range ents {
		var n int
		fmt.Sscanf(e.Name(), "%d", &n)
		switch {
		case n >= fdBaseH2C:
			h2c = append(h2c, n)
		case n >= fdBaseC2H:
			c2h = append(c2h, n)
		}
	}
	return
}

func countFds() int {
	ents, err := os.ReadDir("/proc/self/fd")
	if err != nil {
		return -1
	}
	return len(ents) - 1 // minus the directory handle itself
}
