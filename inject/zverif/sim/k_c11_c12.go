//go:build verif && !verifs2

package sim

import (
	"context"
	"fmt"
	"os"
	"path/filepath"
	"runtime"
	"strconv"
	"strings"
	"sync"
	"syscall"
	"time"

	"github.com/criyle/go-sandbox/container"
	"github.com/criyle/go-sandbox/pkg/forkexec"
	"github.com/criyle/go-sandbox/pkg/mount"
	"github.com/criyle/go-sandbox/ptracer"
	"github.com/criyle/go-sandbox/runner"
	"github.com/criyle/go-sandbox/zverif/vcore"
	"golang.org/x/sys/unix"
)

// ---- C11 in world K: cancellation at pinned instants, on real processes, in the three runners ----

// rvPipes gives the probe a rendezvous channel: it announces on descriptor 3 and blocks reading descriptor 4.
type rvPipes struct {
	announceR, announceW *os.File
	releaseR, releaseW   *os.File
}

func newRvPipes() *rvPipes {
	ar, aw, _ := os.Pipe()
	rr, rw, _ := os.Pipe()
	return &rvPipes{ar, aw, rr, rw}
}

func (p *rvPipes) closeAll() {
	for _, f := range []*os.File{p.announceR, p.announceW, p.releaseR, p.releaseW} {
		f.Close()
	}
}

// waitToken waits for one announcement line (real time bounded).
func (p *rvPipes) waitToken(d time.Duration) (string, bool) {
	ch := make(chan string, 1)
	go func() {
		buf := make([]byte, 256)
		n, _ := p.announceR.Read(buf)
		ch <- strings.TrimSpace(string(buf[:n]))
	}()
	select {
	case s := <-ch:
		return s, s != ""
	case <-time.After(d):
		return "", false
	}
}

// procTreeScript draws what the program's process tree looks like. allowSetsid: leaving the session is
// part of the quantifier only for the pid-namespace based runners (the ptrace runner's policy refuses it).
func procTreeScript(c *vcore.Ctx, allowSetsid bool) []string {
	src := c.Src
	var s []string
	if src.Bool(1, 2, "ignore_signals") {
		s = append(s, "ignore")
	}
	n := src.Int(3, "nchildren")
	// members that hold memory take their time to die after the kill: whoever collects them must wait for them
	heavy := src.Bool(1, 3, "heavy_members")
	if heavy {
		n = 2 + src.Int(4, "nheavy")
	}
	for i := 0; i < n; i++ {
		kindOf := src.Pick("child", "pause", "ignore_pause", "grandchild", "daemon", "thread")
		if kindOf == "daemon" && !allowSetsid {
			kindOf = "grandchild"
		}
		if heavy {
			s = append(s, "fork", "3", "ignore", "alloc", "96", "pause")
			continue
		}
		switch kindOf {
		case "pause":
			s = append(s, "fork", "1", "pause")
		case "ignore_pause":
			s = append(s, "fork", "2", "ignore", "pause")
		case "grandchild":
			s = append(s, "fork", "3", "fork", "1", "pause", "ignore", "pause")
		case "daemon":
			s = append(s, "daemon", "2", "ignore", "pause")
		case "thread":
			s = append(s, "thread", "1", "pause")
		}
	}
	if n > 0 {
		c.MarkNonTrivial()
	}
	return s
}

func c11KRun(c *vcore.Ctx) *vcore.Violation {
	const prop = "C11"
	src := c.Src
	kind := src.Pick("runner", "ptrace", "ptrace", "unshare", "container")
	instant := src.Pick("instant", "before_start", "in_sync_callback", "program_running", "program_exiting", "at_tracer_wait", "in_policy_consultation", "child_before_setsid")
	if kind != "ptrace" && (instant == "at_tracer_wait" || instant == "in_policy_consultation" || instant == "child_before_setsid") {
		instant = "program_running"
	}
	c.Event("runner:" + kind)
	c.Event("cancel@" + instant)
	rv := newRvPipes()
	defer rv.closeAll()
	asDeadline := src.Bool(1, 3, "ends_as_deadline")
	if asDeadline {
		c.Event("deadline_ctx")
	}
	ctx, cancel := newEndableCtx(asDeadline)
	defer cancel()
	script := procTreeScript(c, kind != "ptrace")
	exitCode := 1 + src.Int(200, "code")
	switch instant {
	case "program_exiting":
		script = append(script, "rv", "3", "4", "go", "exit", fmt.Sprint(exitCode))
	case "in_policy_consultation":
		script = append(script, "rv", "3", "4", "go", "sys", "258", "-100", "s:/nonexistent-verif-dir/x", "0755", "0", "0", "0", "pause")
	default:
		script = append(script, "rv", "3", "4", "go", "pause")
	}
	c.Logf("runner=%s cancel instant=%s script=%v", kind, instant, script)
	c.Fault("cancel_" + instant)
	if instant == "before_start" {
		cancel()
	}
	withSync := instant != "child_before_setsid" && !(instant == "before_start" && src.Bool(1, 2, "nosync"))
	if instant == "child_before_setsid" {
		// the child gate holds the freshly cloned child before its setsid; the context is cancelled while
		// it is held (the canceller's kill of the process group finds no such group yet), then it is released
		gr, gw, _ := os.Pipe()
		forkexec.VGateFd = gr.Fd()
		go func() {
			time.Sleep(30 * time.Millisecond)
			cancel()
			time.Sleep(30 * time.Millisecond)
			forkexec.VGateFd = 0
			gw.Write([]byte{1})
			gw.Close()
			gr.Close()
		}()
	}
	var syncPid int
	syncFunc := func(pid int) error {
		syncPid = pid
		if instant == "in_sync_callback" {
			cancel()
		}
		return nil
	}
	waitN := -1
	if instant == "at_tracer_wait" {
		waitN = src.Int(12, "waitidx")
		n := 0
		ptracer.VSetAfterWait(func(pid int, ws unix.WaitStatus) {
			if n == waitN {
				cancel()
				// give the canceller the time to deliver its kill while the tracer is parked here
				for i := 0; i < 40 && pidAlive(pid); i++ {
					time.Sleep(5 * time.Millisecond)
				}
			}
			n++
		})
		defer ptracer.VSetAfterWait(nil)
	}
	h := &recHandler{decide: func(k, arg string, n int) ptracer.TraceAction { return ptracer.TraceBan }}
	if instant == "in_policy_consultation" {
		h.onCall = func(k, arg string, n int) {
			cancel()
			time.Sleep(30 * time.Millisecond)
		}
	}
	// the caller side of the rendezvous
	var rvWG sync.WaitGroup
	rvWG.Add(1)
	go func() {
		defer rvWG.Done()
		if _, ok := rv.waitToken(15 * time.Second); !ok {
			return
		}
		switch instant {
		case "program_running":
			cancel() // the program is parked at its rendezvous, provably running
		case "program_exiting":
			// release it, then cancel after a drawn delay: the exit and the kill race
			rv.releaseW.Write([]byte{1})
			time.Sleep(time.Duration(src.Int(3000, "delay_us")) * time.Microsecond)
			cancel()
			return
		}
		rv.releaseW.Write([]byte{1})
		if instant == "at_tracer_wait" || instant == "in_policy_consultation" {
			// the pinned instant may never come (fewer tracer events than drawn): cancel anyway, later
			time.Sleep(300 * time.Millisecond)
			cancel()
		}
	}()
	var res runner.Result
	start := time.Now()
	extra := []*os.File{rv.announceW, rv.releaseR}
	ok := watchdog(25*time.Second, func() {
		switch kind {
		case "ptrace":
			o := &kOpts{script: script, filter: kFilterAllowAllBut([]string{"mkdirat"}, nil), handler: h, extra: extra, syncFunc: syncFunc}
			if !withSync {
				o.syncFunc = nil
			}
			res, _ = kRunPtrace(ctx, o)
		case "unshare":
			res, _ = kRunUnshare(ctx, &kOpts{script: script, extra: extra, syncFunc: syncFunc})
		default:
			res, _ = sharedContainer().exec(ctx, &kExec{script: script, extra: extra, syncFunc: syncFunc})
		}
	})
	elapsed := time.Since(start)
	rv.announceW.Close()
	site := kind + "/" + instant
	if !ok {
		// unblock everything for the next run
		cancel()
		if syncPid > 0 {
			syscall.Kill(-syncPid, syscall.SIGKILL)
			syscall.Kill(syncPid, syscall.SIGKILL)
		}
		if kind == "container" && sharedCt != nil {
			sharedCt.destroy()
			sharedCt = nil
		}
		for _, p := range descendants(os.Getpid()) {
			syscall.Kill(p, syscall.SIGKILL)
		}
		return vcore.Violate(prop, "cancel_lost", site, "25 s after the cancellation (%s) the run has not returned", instant)
	}
	c.Logf("returned after %v: %s exit=%d err=%q", elapsed.Round(time.Millisecond), statusName(res.Status), res.ExitStatus, res.Error)
	switch res.Status {
	case runner.StatusTimeLimitExceeded:
	case runner.StatusNonzeroExitStatus:
		if instant != "program_exiting" || res.ExitStatus != exitCode {
			return vcore.Violate(prop, "untruthful_verdict", site, "cancelled run returned Nonzero Exit Status/%d; the program %s", res.ExitStatus, map[bool]string{true: "exits with " + fmt.Sprint(exitCode), false: "never exits"}[instant == "program_exiting"])
		}
	case runner.StatusRunnerError:
		if instant == "before_start" || instant == "in_sync_callback" {
			// the launch itself may be refused/aborted by an early cancellation; it must still say so truthfully
			if strings.Contains(res.Error, "panic") || strings.Contains(res.Error, "runtime error") {
				return vcore.Violate(prop, "cancel_reported_as_runner_error", site, "cancellation reported as Runner Error: %s", res.Error)
			}
		}
		return vcore.Violate(prop, "cancel_reported_as_runner_error", site, "cancellation reported as Runner Error: %s", res.Error)
	default:
		return vcore.Violate(prop, "cancel_reported_as_other_verdict", site, "cancelled run reported as %s/%d (%s)", statusName(res.Status), res.ExitStatus, res.Error)
	}
	// everything the program created is gone
	if syncPid > 0 && kind != "container" {
		time.Sleep(5 * time.Millisecond)
		if pidAlive(syncPid) {
			return vcore.Violate(prop, "program_survives_cancel", site, "the program (pid %d) is still alive after the cancelled run returned", syncPid)
		}
	}
	rvWG.Wait()
	return nil
}

// ---- C12 in world K: no process, zombie, descriptor or goroutine residue over histories of real runs ----

// zombieHeldBySelf tells whether pid is a zombie that waits for this process: "" if not.
func zombieHeldBySelf(pid int) string {
	b, err := os.ReadFile(fmt.Sprintf("/proc/%d/status", pid))
	if err != nil {
		return ""
	}
	var state string
	ppid, tracer := 0, 0
	for _, l := range strings.Split(string(b), "\n") {
		f := strings.Fields(l)
		if len(f) < 2 {
			continue
		}
		switch f[0] {
		case "State:":
			state = f[1]
		case "PPid:":
			ppid, _ = strconv.Atoi(f[1])
		case "TracerPid:":
			tracer, _ = strconv.Atoi(f[1])
		}
	}
	if state != "Z" {
		return ""
	}
	if ppid == os.Getpid() {
		return "child of the host process"
	}
	if tracer != 0 {
		if _, err := os.Stat(fmt.Sprintf("/proc/self/task/%d", tracer)); err == nil {
			return fmt.Sprintf("held by the host's tracing thread %d (parent %d)", tracer, ppid)
		}
	}
	return ""
}

func childrenOfSelf() []int {
	return descendantsDirect(os.Getpid())
}

func descendantsDirect(pid int) []int {
	var out []int
	tasks, _ := os.ReadDir(fmt.Sprintf("/proc/%d/task", pid))
	for _, t := range tasks {
		b, err := os.ReadFile(fmt.Sprintf("/proc/%d/task/%s/children", pid, t.Name()))
		if err != nil {
			continue
		}
		for _, f := range strings.Fields(string(b)) {
			c, _ := strconv.Atoi(f)
			if c > 0 {
				out = append(out, c)
			}
		}
	}
	return out
}

func c12KRun(c *vcore.Ctx) *vcore.Violation {
	const prop = "C12"
	src := c.Src
	kind := src.Pick("runner", "ptrace", "unshare", "container", "container_rebuild")
	n := 3 + src.Int(10, "nruns")
	c.Logf("history of %d runs in the %s runner", n, kind)
	c.Event("runner:" + kind)
	var ct *kContainer
	if kind == "container" {
		var err error
		ct, err = kBuildContainer(nil, nil, nil)
		if err != nil {
			vcore.Harnessf("container build: %v", err)
		}
		defer ct.destroy()
	}
	settle := func() (fds, kids, gor int) {
		for i := 0; i < 100; i++ {
			runtime.Gosched()
			time.Sleep(2 * time.Millisecond)
			f, k, g := countFds(), len(childrenOfSelf()), runtime.NumGoroutine()
			if f == fds && k == kids && g == gor && i > 3 {
				break
			}
			fds, kids, gor = f, k, g
		}
		return
	}
	var baseF, baseK, baseG int
	var initF, initK int
	for i := 0; i < n; i++ {
		if i == 2 {
			baseF, baseK, baseG = settle() // baseline after warm-up
			if ct != nil {
				initF = countFdsOf(containerInitPid(ct))
				initK = len(descendantsDirect(containerInitPid(ct)))
			}
		}
		shape := src.Pick("shape", "tree_exit", "tree_exit", "tree_cancel", "launch_failure", "tree_crash", "sync_refused", "build_fails")
		if shape == "build_fails" {
			// building an environment that cannot be completed must leave nothing behind either
			if kind != "container_rebuild" {
				shape = "tree_exit"
			} else {
				c.Event(shape)
				// three places where a Build can fail: on the host before the configuration is sent, and inside
				// the container while it applies the configuration (missing root; bind mount of a missing source)
				b := container.Builder{Root: filepath.Join(c.Dir, "no-such-root-dir"), TmpRoot: "tmp-*"}
				switch src.Int(3, "build_failure") {
				case 1:
					b = container.Builder{Root: filepath.Join(c.Dir, "no-such-root-dir")}
				case 2:
					okRoot, _ := os.MkdirTemp(c.Dir, "c12root")
					defer os.Remove(okRoot)
					b = container.Builder{Root: okRoot, Mounts: mount.NewBuilder().WithBind("/nonexistent-verif-source", "m", true).Mounts}
				}
				env, err := b.Build()
				c.Logf("run %d build_fails: Build -> %v", i, err)
				if err == nil {
					env.Destroy()
				}
				continue
			}
		}
		c.Event(shape)
		script := procTreeScript(c, kind != "ptrace")
		ctx, cancel := context.WithCancel(context.Background())
		rv := newRvPipes()
		pidR, pidW, _ := os.Pipe()
		// every process of the tree reports its pid on descriptor 5 before doing anything else
		script = append([]string{"pid", "5"}, script...)
		switch shape {
		case "tree_exit":
			script = append(script, "exit", fmt.Sprint(src.Int(3, "code")))
		case "tree_crash":
			script = append(script, "segv")
		case "tree_cancel":
			script = append(script, "rv", "3", "4", "go", "pause")
			go func() {
				if _, ok := rv.waitToken(15 * time.Second); ok {
					cancel()
				}
			}()
		case "launch_failure":
			script = []string{"exit", "0"}
		}
		if kind == "container" && ct != nil && src.Bool(1, 4, "refused_open_batch") {
			// a file batch whose reply the control socket refuses (more files than one packet carries): the call
			// fails as a whole, and nothing of it may stay behind in the init
			var batch []container.OpenCmd
			for k := 0; k < 260+src.Int(40, "nbatch"); k++ {
				batch = append(batch, container.OpenCmd{Path: fmt.Sprintf("/w/many/%d", k), Flag: os.O_RDWR | os.O_CREATE, Perm: 0644, MkdirAll: true})
			}
			c.Event("refused_open_batch")
			c.Fault("open_batch_reply_refused")
			var rs []container.OpenCmdResult
			watchdog(40*time.Second, func() { rs, _ = ct.env.Open(batch) })
			for _, r := range rs {
				if r.File != nil {
					r.File.Close()
				}
			}
		}
		extra := []*os.File{rv.announceW, rv.releaseR, pidW}
		var res runner.Result
		// containers: the callback may be asked for after the exec (then the program already runs, and may
		// have built its tree, when the caller refuses)
		syncAfter := strings.HasPrefix(kind, "container") && src.Bool(1, 2, "sync_after_exec")
		if syncAfter {
			c.Event("sync_after_exec")
		}
		var topPid int
		sync := func(pid int) error {
			topPid = pid
			if syncAfter {
				topPid = 0 // (the init's pid, not the program's)
			}
			if shape == "sync_refused" {
				if syncAfter {
					time.Sleep(60 * time.Millisecond) // the tree is up by now
				}
				topPid = 0
				return fmt.Errorf("refused by caller") // e.g. a failed cgroup attach
			}
			return nil
		}
		if shape == "sync_refused" {
			script = append(script, "exit", "0")
		}
		ok := watchdog(40*time.Second, func() {
			switch {
			case shape == "launch_failure" && kind == "ptrace":
				res, _ = kRunPtrace(ctx, &kOpts{script: script, filter: kFilterAllowAllBut(nil, nil), handler: &recHandler{}, extra: extra, workdir: "/nonexistent-verif-workdir"})
			case shape == "launch_failure" && kind == "unshare":
				res, _ = kRunUnshare(ctx, &kOpts{script: script, extra: extra, workdir: "/nonexistent-verif-workdir"})
			case shape == "launch_failure":
				e := &kExec{script: script, extra: extra, args0: "/probe/no-such-binary"}
				if src.Bool(1, 2, "clone_fails") {
					// the very first step fails: the descriptor meant for clone-into-cgroup is an ordinary directory
					if d, err := os.Open(c.Dir); err == nil {
						defer d.Close()
						e = &kExec{script: script, extra: extra, cgroupFD: d.Fd()}
						c.Event("clone_fails")
						c.Fault("launch_fails_at_clone")
					}
				}
				if kind == "container_rebuild" {
					k2, err := kBuildContainer(nil, nil, nil)
					if err != nil {
						vcore.Harnessf("container build: %v", err)
					}
					res, _ = k2.exec(ctx, e)
					k2.destroy()
				} else {
					res, _ = ct.exec(ctx, e)
				}
			case kind == "ptrace":
				res, _ = kRunPtrace(ctx, &kOpts{script: script, filter: kFilterAllowAllBut(nil, nil), handler: &recHandler{}, extra: extra, syncFunc: sync})
			case kind == "unshare":
				res, _ = kRunUnshare(ctx, &kOpts{script: script, extra: extra, syncFunc: sync})
			case kind == "container_rebuild":
				k2, err := kBuildContainer(nil, nil, nil)
				if err != nil {
					vcore.Harnessf("container build: %v", err)
				}
				res, _ = k2.exec(ctx, &kExec{script: script, extra: extra, syncFunc: sync, syncAfter: syncAfter})
				k2.destroy()
			default:
				res, _ = ct.exec(ctx, &kExec{script: script, extra: extra, syncFunc: sync, syncAfter: syncAfter})
			}
		})
		cancel()
		pidW.Close()
		rv.closeAll()
		if !ok {
			pidR.Close()
			return vcore.Violate(prop, "hang", kind+"/"+shape, "run %d of the history did not return", i)
		}
		c.Logf("run %d %s %v: %s exit=%d %q", i, shape, script, statusName(res.Status), res.ExitStatus, res.Error)
		// host pids the program's processes had (pid namespaces translate: for ptrace runs the reported pids are host pids)
		if kind == "ptrace" && os.Getenv("VERIF_DEBUG") != "" {
			ents, _ := os.ReadDir("/proc")
			var l []string
			for _, e := range ents {
				if _, err := strconv.Atoi(e.Name()); err == nil {
					b, _ := os.ReadFile("/proc/" + e.Name() + "/status")
					var st, pp, tr string
					for _, ln := range strings.Split(string(b), "\n") {
						f := strings.Fields(ln)
						if len(f) > 1 && f[0] == "State:" {
							st = f[1]
						}
						if len(f) > 1 && f[0] == "PPid:" {
							pp = f[1]
						}
						if len(f) > 1 && f[0] == "TracerPid:" {
							tr = f[1]
						}
					}
					l = append(l, e.Name()+":"+st+":pp"+pp+":tr"+tr)
				}
			}
			fmt.Fprintf(os.Stderr, "DEBUGPS shape=%s script=%v procs=%v\n", shape, script, l)
		}
		if kind == "ptrace" {
			// every process of the tree announced its pid there as its first action
			var all []byte
			buf := make([]byte, 4096)
			pidR.SetReadDeadline(time.Now().Add(200 * time.Millisecond))
			for {
				nb, err := pidR.Read(buf)
				all = append(all, buf[:nb]...)
				if err != nil || nb == 0 {
					break
				}
			}
			for _, l := range strings.Split(string(all), "\n") {
				f := strings.Fields(l)
				if len(f) == 2 && f[0] == "pid" {
					p, _ := strconv.Atoi(f[1])
					for k := 0; k < 200 && pidAlive(p); k++ {
						time.Sleep(time.Millisecond)
					}
					if pidAlive(p) {
						pidR.Close()
						return vcore.Violate(prop, "process_survives_run", kind+"/"+shape, "process %d of the program is still alive after the run returned (%s)", p, strings.Join(script, " "))
					}
					// dead is not enough: it must not stay behind as a zombie that only the host can release
					// (its child, or a tracee of one of its threads: the kernel keeps a traced zombie until its
					// tracer has waited for it, whoever its parent is)
					if os.Getenv("VERIF_DEBUG") != "" {
						b, _ := os.ReadFile(fmt.Sprintf("/proc/%d/status", p))
						fmt.Fprintf(os.Stderr, "DEBUG0 pid %d exists=%v status=%q\n", p, pidExists(p), strings.Join(strings.Fields(string(b)), " "))
					}
					for k := 0; k < 300 && pidExists(p); k++ {
						time.Sleep(5 * time.Millisecond)
					}
					if os.Getenv("VERIF_DEBUG") != "" {
						b, _ := os.ReadFile(fmt.Sprintf("/proc/%d/status", p))
						fmt.Fprintf(os.Stderr, "DEBUG pid %d exists=%v status=%q\n", p, pidExists(p), strings.Join(strings.Fields(string(b)), " "))
					}
					if who := zombieHeldBySelf(p); who != "" {
						pidR.Close()
						return vcore.Violate(prop, "zombie_left", kind+"/"+shape, "process %d of the program is left as a zombie %s after the run returned (%s)", p, who, strings.Join(script, " "))
					}
				}
			}
		}
		pidR.Close()
		if kind == "container" && ct != nil {
			// when the call has returned, the container init has no children left: neither processes of the
			// program nor their zombies (it kills and reaps everything before it answers)
			ip := containerInitPid(ct)
			var kids []int
			for k := 0; k < 60; k++ {
				if kids = descendantsDirect(ip); len(kids) == 0 {
					break
				}
				time.Sleep(5 * time.Millisecond)
			}
			if len(kids) > 0 {
				var z []string
				for _, p := range kids {
					st, _ := os.ReadFile(fmt.Sprintf("/proc/%d/stat", p))
					if f := strings.Fields(string(st)); len(f) > 2 {
						z = append(z, f[0]+f[1]+f[2])
					}
				}
				return vcore.Violate(prop, "init_child_left", kind+"/"+shape, "after the run returned (%s, sync after exec=%v) the container init still has children: %v", statusName(res.Status), syncAfter, z)
			}
		}
		if topPid > 0 && kind == "unshare" {
			for k := 0; k < 200 && pidAlive(topPid); k++ {
				time.Sleep(time.Millisecond)
			}
			if pidAlive(topPid) {
				return vcore.Violate(prop, "process_survives_run", kind+"/"+shape, "the program (pid %d) is still alive after the run returned", topPid)
			}
		}
	}
	f, k, g := settle()
	// goroutines that end asynchronously (the runners' cancellers, forkexec's reader) get time to do so:
	// growth is reported only if it persists
	for i := 0; i < 100 && (f > baseF || k > baseK || g > baseG); i++ {
		time.Sleep(30 * time.Millisecond)
		f, k, g = settle()
	}
	c.Logf("host after warm-up: fds=%d children=%d goroutines=%d; at the end: fds=%d children=%d goroutines=%d", baseF, baseK, baseG, f, k, g)
	if os.Getenv("VERIF_DEBUG") != "" && (f > baseF || g > baseG) {
		buf := make([]byte, 1<<20)
		nb := runtime.Stack(buf, true)
		os.Stderr.Write(buf[:nb])
		ents, _ := os.ReadDir("/proc/self/fd")
		for _, e := range ents {
			l, _ := os.Readlink("/proc/self/fd/" + e.Name())
			fmt.Fprintln(os.Stderr, "fd", e.Name(), l)
		}
	}
	if f > baseF {
		return vcore.Violate(prop, "descriptor_growth", kind, "open descriptors of the host grew from %d to %d over %d runs", baseF, f, n-2)
	}
	if k > baseK {
		var z []string
		for _, p := range childrenOfSelf() {
			st, _ := os.ReadFile(fmt.Sprintf("/proc/%d/stat", p))
			z = append(z, strings.Join(strings.Fields(string(st))[:3], " "))
		}
		return vcore.Violate(prop, "child_process_growth", kind, "child processes of the host grew from %d to %d over %d runs: %v", baseK, k, n-2, z)
	}
	if g > baseG {
		return vcore.Violate(prop, "goroutine_growth", kind, "goroutines of the host grew from %d to %d over %d runs", baseG, g, n-2)
	}
	if ct != nil {
		ip := containerInitPid(ct)
		nf := countFdsOf(ip)
		// (a leak persists; what the init has not closed *yet* does not: it answers a failed launch before its
		// deferred clean-up of the descriptors that came with the request has run)
		for i := 0; i < 150 && nf > initF; i++ {
			time.Sleep(20 * time.Millisecond)
			nf = countFdsOf(ip)
		}
		if nf > initF {
			return vcore.Violate(prop, "init_descriptor_growth", kind, "descriptors of the container init grew from %d to %d", initF, nf)
		}
		if nk := len(descendantsDirect(ip)); nk > initK {
			return vcore.Violate(prop, "init_child_growth", kind, "children of the container init grew from %d to %d", initK, nk)
		}
	}
	return nil
}

func countFdsOf(pid int) int {
	ents, err := os.ReadDir(fmt.Sprintf("/proc/%d/fd", pid))
	if err != nil {
		return -1
	}
	return len(ents)
}
