//go:build verif

package sim

import (
	"bytes"
	"fmt"
	"os"
	"runtime"
	"strconv"
)

// helperMain runs auxiliary roles of the harness binary (controller helpers etc.).
func helperMain(role string) int {
	if f, ok := helpers[role]; ok {
		return f()
	}
	fmt.Fprintf(os.Stderr, "verif: unknown helper %q\n", role)
	return 2
}

var helpers = map[string]func() int{}

// goid returns the id of the calling goroutine.
func goid() int {
	var buf [64]byte
	n := runtime.Stack(buf[:], false)
	f := bytes.Fields(buf[:n])
	if len(f) < 2 {
		return 0
	}
	id, _ := strconv.Atoi(string(f[1]))
	return id
}
