//go:build verif

package sim

import (
	"bytes"
	"context"
	"fmt"
	"os"
	"runtime"
	"strconv"
	"sync"
	"time"
)

// helperMain runs auxiliary roles of the harness binary (controller helpers etc.).
func helperMain(role string) int {
	if f, ok := helpers[role]; ok {
		return f()
	}
	fmt.Fprintf(os.Stderr, "verif: unknown helper %q\n", role)
	return 2
}

var helpers = map[string]func() int{}

// goid returns the id of the calling goroutine.
func goid() int {
	var buf [64]byte
	n := runtime.Stack(buf[:], false)
	f := bytes.Fields(buf[:n])
	if len(f) < 2 {
		return 0
	}
	id, _ := strconv.Atoi(string(f[1]))
	return id
}

// endableCtx is a context the simulator ends at an instant of its choosing, either as a cancellation
// or as an expired deadline (same instant, other Err): code that tells the two apart must treat both
// as "the caller wants the run to end".
type endableCtx struct {
	mu       sync.Mutex
	done     chan struct{}
	err      error
	deadline bool
}

func newEndableCtx(asDeadline bool) (context.Context, context.CancelFunc) {
	e := &endableCtx{done: make(chan struct{}), deadline: asDeadline}
	return e, e.end
}

func (e *endableCtx) end() {
	e.mu.Lock()
	defer e.mu.Unlock()
	if e.err != nil {
		return
	}
	e.err = context.Canceled
	if e.deadline {
		e.err = context.DeadlineExceeded
	}
	close(e.done)
}

func (e *endableCtx) Deadline() (time.Time, bool) {
	if e.deadline {
		return time.Now().Add(time.Hour), true
	}
	return time.Time{}, false
}
func (e *endableCtx) Done() <-chan struct{} { return e.done }
func (e *endableCtx) Err() error {
	e.mu.Lock()
	defer e.mu.Unlock()
	return e.err
}
func (e *endableCtx) Value(any) any { return nil }

// Stack phase. Go moves a goroutine's stack when it has to grow. Code that turns a pointer to one
// of its own locals into a uintptr and only later (in a callee) hands it to the kernel is correct
// only as long as no growth falls in between; whether it does depends on how deep the caller already
// is - a property of the caller's history that no argument value expresses. withStackPhase runs f
// on a fresh goroutine below `levels` padding frames (about 80 bytes each) plus `fine` bytes, so
// that a sweep over (levels, fine) moves the first growth across every call boundary of f.
func withStackPhase(levels, fine int, f func()) {
	done := make(chan struct{})
	var pv any
	go func() {
		defer close(done)
		defer func() { pv = recover() }()
		padStack(levels, func() { padFine(fine, f) })
	}()
	<-done
	if pv != nil {
		panic(pv)
	}
}

var padSink byte

//go:noinline
func padStack(n int, f func()) {
	var b [48]byte
	b[n%48] = byte(n)
	if n == 0 {
		f()
	} else {
		padStack(n-1, f)
	}
	padSink += b[(n+1)%48]
}

//go:noinline
func padFine(k int, f func()) {
	switch k / 16 {
	case 1:
		pad16(f)
	case 2:
		pad32(f)
	case 3:
		pad48(f)
	case 4:
		pad64(f)
	default:
		f()
	}
}

//go:noinline
func pad16(f func()) { var b [16]byte; b[1] = 1; f(); padSink += b[2] }

//go:noinline
func pad32(f func()) { var b [32]byte; b[1] = 1; f(); padSink += b[2] }

//go:noinline
func pad48(f func()) { var b [48]byte; b[1] = 1; f(); padSink += b[2] }

//go:noinline
func pad64(f func()) { var b [64]byte; b[1] = 1; f(); padSink += b[2] }
