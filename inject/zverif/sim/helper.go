//go:build verif

package sim

import (
	"bytes"
	"context"
	"fmt"
	"os"
	"runtime"
	"strconv"
	"sync"
	"time"
)

// helperMain runs auxiliary roles of the harness binary (controller helpers etc.).
func helperMain(role string) int {
	if f, ok := helpers[role]; ok {
		return f()
	}
	fmt.Fprintf(os.Stderr, "verif: unknown helper %q\n", role)
	return 2
}

var helpers = map[string]func() int{}

// goid returns the id of the calling goroutine.
func goid() int {
	var buf [64]byte
	n := runtime.Stack(buf[:], false)
	f := bytes.Fields(buf[:n])
	if len(f) < 2 {
		return 0
	}
	id, _ := strconv.Atoi(string(f[1]))
	return id
}

// endableCtx is a context the simulator ends at an instant of its choosing, either as a cancellation
// or as an expired deadline (same instant, other Err): code that tells the two apart must treat both
// as "the caller wants the run to end".
type endableCtx struct {
	mu       sync.Mutex
	done     chan struct{}
	err      error
	deadline bool
}

func newEndableCtx(asDeadline bool) (context.Context, context.CancelFunc) {
	e := &endableCtx{done: make(chan struct{}), deadline: asDeadline}
	return e, e.end
}

func (e *endableCtx) end() {
	e.mu.Lock()
	defer e.mu.Unlock()
	if e.err != nil {
		return
	}
	e.err = context.Canceled
	if e.deadline {
		e.err = context.DeadlineExceeded
	}
	close(e.done)
}

func (e *endableCtx) Deadline() (time.Time, bool) {
	if e.deadline {
		return time.Now().Add(time.Hour), true
	}
	return time.Time{}, false
}
func (e *endableCtx) Done() <-chan struct{} { return e.done }
func (e *endableCtx) Err() error {
	e.mu.Lock()
	defer e.mu.Unlock()
	return e.err
}
func (e *endableCtx) Value(any) any { return nil }
