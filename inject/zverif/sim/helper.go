//go:build verif

package sim

import (
	"fmt"
	"os"
)

// helperMain runs auxiliary roles of the harness binary (controller helpers etc.).
func helperMain(role string) int {
	if f, ok := helpers[role]; ok {
		return f()
	}
	fmt.Fprintf(os.Stderr, "verif: unknown helper %q\n", role)
	return 2
}

var helpers = map[string]func() int{}
