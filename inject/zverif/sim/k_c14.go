//go:build verif && !verifs2

package sim

import (
	"context"
	"fmt"
	"os"
	"strings"
	"syscall"
	"time"

	"github.com/criyle/go-sandbox/container"
	"github.com/criyle/go-sandbox/runner"
	"github.com/criyle/go-sandbox/zverif/vcore"
	"golang.org/x/sys/unix"
)

// C14 in world K: the objects are planted by a real program inside a real container (its own mount
// and pid namespaces), then the host performs Open / Symlink / Delete batches on those names and the
// results are judged from outside, through /proc/<init>/root.

func c14KRun(c *vcore.Ctx) *vcore.Violation {
	const prop = "C14"
	src := c.Src
	ct := sharedContainer()
	if ct == nil {
		vcore.Harnessf("container build failed")
	}
	if err := ct.env.Reset(); err != nil {
		ct.destroy()
		sharedCt = nil
		vcore.VoidRun("reset_of_shared_container_failed")
	}
	initPid := containerInitPid(ct)
	hostView := func(p string) string { return fmt.Sprintf("/proc/%d/root%s", initPid, p) }
	// 1. a tenant leaves objects at the names the host will be asked to open
	names := []string{"f0", "f1", "f2", "f3", "f4", "f5"}
	planted := map[string]string{}
	var script []string
	sys := func(nr int, a ...string) {
		args := append([]string{"sys", fmt.Sprint(nr)}, a...)
		for len(args) < 8 {
			args = append(args, "0")
		}
		script = append(script, args...)
	}
	sys(2, "s:/w/secret", "0x41", "0600") // something worth reaching through a link
	sys(83, "s:/tmp/elsewhere", "0755")
	for _, n := range names {
		kind := src.Pick("plant", "none", "none", "file", "dir", "symlink_file", "symlink_dir", "symlink_outside_mount", "dangling", "selfloop", "fifo", "socket", "file000", "symlink_fifo")
		p := "/w/" + n
		planted[n] = kind
		c.Event("plant:" + kind)
		switch kind {
		case "file":
			sys(2, "s:"+p, "0x41", "0644")
		case "dir":
			sys(83, "s:"+p, "0755")
		case "symlink_file":
			sys(88, "s:/w/secret", "s:"+p)
		case "symlink_dir":
			sys(88, "s:/w", "s:"+p)
		case "symlink_outside_mount":
			sys(88, "s:/tmp/elsewhere/created-by-host", "s:"+p)
		case "dangling":
			sys(88, "s:/w/nowhere", "s:"+p)
		case "selfloop":
			sys(88, "s:"+p, "s:"+p)
		case "fifo":
			sys(133, "s:"+p, "010644", "0")
		case "socket":
			sys(133, "s:"+p, "0140644", "0")
		case "file000":
			sys(2, "s:"+p, "0x41", "0")
		case "symlink_fifo":
			sys(133, "s:/w/the-fifo", "010644", "0")
			sys(88, "s:/w/the-fifo", "s:"+p)
		}
	}
	script = append(script, "exit", "0")
	var res runner.Result
	if !watchdog(60*time.Second, func() { res, _ = ct.exec(context.Background(), &kExec{script: script}) }) {
		return vcore.Violate(prop, "hang", "tenant", "the planting program did not return")
	}
	if res.Status != runner.StatusNormal {
		vcore.Harnessf("planting program: %s %s", statusName(res.Status), res.Error)
	}
	c.Logf("planted by a program in the container: %v", planted)
	c.MarkNonTrivial()
	// 2. the host's batch
	n := 1 + src.Int(6, "nitems")
	var batch []container.OpenCmd
	for i := 0; i < n; i++ {
		name := names[src.Int(len(names), "item")]
		fl := []int{os.O_RDONLY, os.O_WRONLY, os.O_RDWR}[src.Int(3, "acc")]
		if src.Bool(1, 2, "creat") {
			fl |= os.O_CREATE
		}
		if src.Bool(1, 4, "trunc") {
			fl |= os.O_TRUNC
		}
		o := container.OpenCmd{Path: "/w/" + name, Flag: fl, Perm: 0644, MkdirAll: src.Bool(1, 3, "mkdirall")}
		switch src.Int(8, "shape") {
		case 0:
			o.Path = "/w/sub/deeper/" + name
		case 1:
			o.Path = "/w/" + name + "/below" // below whatever was planted
		}
		batch = append(batch, o)
	}
	var desc []string
	for _, o := range batch {
		desc = append(desc, fmt.Sprintf("%s:%#x mk=%v", o.Path, o.Flag, o.MkdirAll))
	}
	c.Logf("Open batch: %v", desc)
	var results []container.OpenCmdResult
	var err error
	if !watchdog(20*time.Second, func() { results, err = ct.env.Open(batch) }) {
		// free the container for the next run
		ct.destroy()
		sharedCt = nil
		return vcore.Violate(prop, "open_blocked", "open", "Open of %v did not return within 20 s (planted: %v)", desc, planted)
	}
	defer func() {
		for _, r := range results {
			if r.File != nil {
				r.File.Close()
			}
		}
	}()
	if err != nil {
		return vcore.Violate(prop, "unexpected_error", "open", "Open failed as a whole: %v (batch %v, planted %v)", err, desc, planted)
	}
	if len(results) != len(batch) {
		return vcore.Violate(prop, "misaligned", "open", "Open returned %d results for %d items", len(results), len(batch))
	}
	for k, o := range batch {
		r := results[k]
		if (r.File == nil) == (r.Err == nil) {
			return vcore.Violate(prop, "misaligned", "open", "item %d (%s): file=%v err=%v (exactly one must be set)", k, o.Path, r.File != nil, r.Err)
		}
		if r.File == nil {
			continue
		}
		var fst, pst syscall.Stat_t
		if e := syscall.Fstat(int(r.File.Fd()), &fst); e != nil {
			return vcore.Violate(prop, "bad_descriptor", "open", "item %d (%s): fstat: %v", k, o.Path, e)
		}
		if fst.Mode&syscall.S_IFMT != syscall.S_IFREG {
			return vcore.Violate(prop, "non_regular", "open", "item %d (%s) handed back a descriptor of type %#o (planted: %v)", k, o.Path, fst.Mode&syscall.S_IFMT, planted)
		}
		// the object at the requested path, looked at from outside without following a final link
		if e := lstatInRoot(initPid, o.Path, &pst); e != nil {
			return vcore.Violate(prop, "misaligned", "open", "item %d: a descriptor came back but %s does not exist in the container (%v)", k, o.Path, e)
		}
		if pst.Mode&syscall.S_IFMT != syscall.S_IFREG || pst.Ino != fst.Ino || pst.Dev != fst.Dev {
			return vcore.Violate(prop, "misaligned", "open", "item %d: the descriptor is inode %d (type %#o), %s is inode %d of type %#o: a link was followed or results are shifted (planted: %v)", k, fst.Ino, fst.Mode&syscall.S_IFMT, o.Path, pst.Ino, pst.Mode&syscall.S_IFMT, planted)
		}
		acc, _ := fcntlGetfl(int(r.File.Fd()))
		if acc&syscall.O_ACCMODE != o.Flag&syscall.O_ACCMODE {
			return vcore.Violate(prop, "wrong_mode", "open", "item %d (%s): access mode %#x, requested %#x", k, o.Path, acc&syscall.O_ACCMODE, o.Flag&syscall.O_ACCMODE)
		}
	}
	// nothing may have been created through a planted link
	var tmp syscall.Stat_t
	if e := lstatInRoot(initPid, "/tmp/elsewhere/created-by-host", &tmp); e == nil {
		return vcore.Violate(prop, "link_followed", "open/create_through_link", "a file was created at the target of a planted link (/tmp/elsewhere/created-by-host)")
	}
	if e := lstatInRoot(initPid, "/w/nowhere", &tmp); e == nil {
		return vcore.Violate(prop, "link_followed", "open/create_through_dangling_link", "a file was created at the target of a planted dangling link (/w/nowhere)")
	}
	// 3. Delete and Symlink stay index-aligned and leave the environment usable
	if src.Bool(1, 2, "then_symlink") {
		links := []container.SymbolicLink{{LinkPath: "/w/l-ok", Target: "/tmp"}, {LinkPath: "/w/" + names[src.Int(len(names), "linkat")], Target: "/tmp"}, {LinkPath: "/w/l-ok2", Target: "x"}}
		errs, err := ct.env.Symlink(links)
		if err != nil || len(errs) != len(links) {
			return vcore.Violate(prop, "misaligned", "symlink", "Symlink of %d items returned %d results, err %v", len(links), len(errs), err)
		}
		for k, l := range links {
			tgt, rerr := os.Readlink(hostView(l.LinkPath))
			made := rerr == nil && tgt == l.Target
			if (errs[k] == nil) != made && !(errs[k] != nil && planted[strings.TrimPrefix(l.LinkPath, "/w/")] != "" && made) {
				return vcore.Violate(prop, "misaligned", "symlink", "Symlink item %d (%s): result %v, but the link is %q (%v)", k, l.LinkPath, errs[k], tgt, rerr)
			}
		}
	}
	if err := ct.env.Ping(); err != nil {
		return vcore.Violate(prop, "unusable", "after_batch", "Ping after the batch failed: %v", err)
	}
	c.Probe("real_container_batch_checked")
	return nil
}


// lstatInRoot looks at path as the container sees it (absolute links in intermediate components resolve
// against the container's root, not the caller's), without following a final link.
func lstatInRoot(initPid int, path string, st *syscall.Stat_t) error {
	root, err := unix.Open(fmt.Sprintf("/proc/%d/root", initPid), unix.O_PATH|unix.O_DIRECTORY|unix.O_CLOEXEC, 0)
	if err != nil {
		return err
	}
	defer unix.Close(root)
	fd, err := unix.Openat2(root, strings.TrimPrefix(path, "/"), &unix.OpenHow{Flags: unix.O_PATH | unix.O_NOFOLLOW | unix.O_CLOEXEC, Resolve: unix.RESOLVE_IN_ROOT})
	if err != nil {
		return err
	}
	defer unix.Close(fd)
	return syscall.Fstat(fd, st)
}
