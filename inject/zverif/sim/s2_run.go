//go:build verif && verifs2

package sim

import (
	"errors"
	"fmt"
	"reflect"
	"strings"
	"syscall"

	"github.com/criyle/go-sandbox/pkg/forkexec"
	"github.com/criyle/go-sandbox/pkg/mount"
	"github.com/criyle/go-sandbox/pkg/rlimit"
	"github.com/criyle/go-sandbox/zverif/vcore"
	"golang.org/x/sys/unix"
)

const closeMarker = ^uintptr(0)

// s2cfg is one generated launch configuration plus the simulator's choices about the kernel.
type s2cfg struct {
	files       []uintptr
	parentFds   []int // descriptors open in the caller (besides 0,1,2)
	sockFds     [2]int
	execFile    int
	cgroupFd    int
	cred        *syscall.Credential
	dropCaps    bool
	nnp         bool
	seccomp     bool
	ptrace      bool
	stopBefore  bool
	syncMode    int // 0 none, 1 ok, 2 callback returns error
	cgAfter     bool
	flags       uintptr
	pivot       bool
	nMounts     int
	mountRO     []bool
	nRlimits    int
	workdir     string
	host        string
	domain      string
	ctty        bool
	idmaps      bool
	setgroupsOK bool
	parentRoot  bool
	twice       bool
	execErrno   syscall.Errno
	execBusy    int
	badMount    int // index of a mount whose source does not exist (-1 none)
	badWorkdir  bool
}

func (g *s2cfg) vector() string {
	b := func(x bool, s string) string {
		if x {
			return s
		}
		return ""
	}
	parts := []string{b(g.cred != nil, "cred"), b(g.dropCaps, "dropcaps"), b(g.nnp, "nnp"), b(g.seccomp, "seccomp"), b(g.ptrace, "ptrace"),
		b(g.stopBefore, "stop"), []string{"", "sync", "syncerr"}[g.syncMode], b(g.cgAfter, "cgafter"), b(g.pivot, "pivot"),
		b(g.execFile > 0, "fexecve"), b(g.cgroupFd > 0, "cgroupfd"), b(g.ctty, "ctty"), b(g.workdir != "", "workdir"), b(g.host != "", "host"),
		b(g.domain != "", "domain"), b(g.idmaps, "idmaps"), b(!g.parentRoot, "unpriv")}
	for _, f := range []struct {
		f uintptr
		n string
	}{{unix.CLONE_NEWUSER, "user"}, {unix.CLONE_NEWPID, "pid"}, {unix.CLONE_NEWNS, "mnt"}, {unix.CLONE_NEWUTS, "uts"}, {unix.CLONE_NEWIPC, "ipc"}, {unix.CLONE_NEWNET, "net"}, {unix.CLONE_NEWCGROUP, "cgroup"}} {
		parts = append(parts, b(g.flags&f.f != 0, "ns:"+f.n))
	}
	var out []string
	for _, p := range parts {
		if p != "" {
			out = append(out, p)
		}
	}
	return strings.Join(out, ",")
}

func genS2Cfg(c *vcore.Ctx, heavyFds bool) *s2cfg {
	src := c.Src
	g := &s2cfg{badMount: -1}
	g.parentRoot = !src.Bool(1, 6, "unpriv")
	// descriptor list
	nf := src.Int(4, "nfiles")
	if heavyFds {
		nf = src.Int(9, "nfiles")
	}
	open := map[int]bool{0: true, 1: true, 2: true}
	for i := 0; i < nf; i++ {
		switch {
		case src.Bool(1, 10, "closeslot"):
			g.files = append(g.files, closeMarker)
		default:
			v := src.Int(13, "fileval")
			g.files = append(g.files, uintptr(v))
			open[v] = true
		}
	}
	// internal descriptors: anywhere in 3..14 that is free
	free := func(label string) int {
		for {
			v := 3 + src.Int(12, label)
			if !open[v] {
				open[v] = true
				return v
			}
		}
	}
	g.sockFds[0] = free("sock0")
	g.sockFds[1] = free("sock1")
	if src.Bool(1, 3, "fexecve") {
		g.execFile = free("execfd")
	}
	if src.Bool(1, 6, "cgroupfd") {
		g.cgroupFd = free("cgfd")
	}
	for fd := range open {
		if fd > 2 && fd != g.sockFds[0] && fd != g.sockFds[1] {
			g.parentFds = append(g.parentFds, fd)
		}
	}
	// option vector
	if src.Bool(1, 2, "cred") {
		g.cred = &syscall.Credential{Uid: uint32(1000 + src.Int(3, "uid")), Gid: uint32(1000 + src.Int(3, "gid"))}
		switch src.Int(3, "groups") {
		case 1:
			g.cred.Groups = []uint32{2000, 2001}
		case 2:
			g.cred.NoSetGroups = true
		}
	}
	g.dropCaps = src.Bool(1, 2, "dropcaps")
	g.nnp = src.Bool(1, 2, "nnp")
	g.seccomp = src.Bool(1, 2, "seccomp")
	g.ptrace = src.Bool(1, 3, "ptrace")
	g.stopBefore = src.Bool(1, 6, "stop")
	g.syncMode = []int{0, 1, 1, 2}[src.Int(4, "sync")]
	g.cgAfter = src.Bool(1, 3, "cgafter")
	for _, f := range []uintptr{unix.CLONE_NEWPID, unix.CLONE_NEWNS, unix.CLONE_NEWUTS, unix.CLONE_NEWIPC, unix.CLONE_NEWNET, unix.CLONE_NEWCGROUP} {
		if src.Bool(1, 3, "nsflag") {
			g.flags |= f
		}
	}
	if src.Bool(1, 3, "userns") || (!g.parentRoot && g.flags != 0) {
		g.flags |= unix.CLONE_NEWUSER
		g.idmaps = src.Bool(1, 2, "idmaps")
		g.setgroupsOK = src.Bool(1, 2, "setgroupsok")
	}
	if !g.parentRoot {
		g.setgroupsOK = false // an unprivileged writer of gid_map must have denied setgroups first
	}
	if g.flags&unix.CLONE_NEWUSER != 0 && g.cred != nil {
		// keep the request inside what the kernel accepts: ids must be mapped, setgroups must be permitted
		if !g.idmaps || !g.parentRoot {
			g.cred.Uid, g.cred.Gid = 0, 0
		}
		if !(g.idmaps && g.setgroupsOK) && !(g.idmaps && len(g.cred.Groups) == 0) {
			g.cred.NoSetGroups = true
			g.cred.Groups = nil
		}
	}
	if !g.parentRoot && g.flags&unix.CLONE_NEWUSER == 0 {
		// an unprivileged caller without a user namespace cannot change ids or securebits
		g.cred = nil
		g.dropCaps = false
		g.cgAfter = false
	}
	if g.flags&unix.CLONE_NEWNS != 0 && src.Bool(2, 3, "pivot") {
		g.pivot = true
		g.nMounts = src.Int(4, "nmounts")
		for i := 0; i < g.nMounts; i++ {
			g.mountRO = append(g.mountRO, src.Bool(1, 2, "mountro"))
		}
	}
	g.nRlimits = src.Int(4, "nrlimits")
	if src.Bool(1, 2, "workdir") {
		g.workdir = "/work"
	}
	if g.flags&unix.CLONE_NEWUTS != 0 {
		if src.Bool(1, 2, "host") {
			g.host = "sandbox-host"
		}
		if src.Bool(1, 2, "domain") {
			g.domain = "sandbox-domain"
		}
	}
	g.twice = src.Bool(1, 3, "twice")
	return g
}

// build materialises the Runner and the parent's process in the stub kernel.
func (g *s2cfg) build(k *simk) (*forkexec.Runner, *kproc) {
	par := k.newProc(nil)
	par.sid, par.pgid = 4000, 4000
	par.cwd = "/caller"
	par.host, par.domain = "hostmachine", "(none)"
	par.uid, par.gid = 0, 0
	par.capEff, par.capPrm = true, true
	par.groups = []uint32{0}
	if !g.parentRoot {
		par.uid, par.gid = 500, 500
		par.groups = []uint32{500}
		par.capEff, par.capPrm = false, false
		par.unprivilegedUser = true
	}
	par.rlimits[syscall.RLIMIT_NOFILE] = syscall.Rlimit{Cur: 1024, Max: 4096}
	par.rlimits[syscall.RLIMIT_CPU] = syscall.Rlimit{Cur: ^uint64(0), Max: ^uint64(0)}
	for i := 0; i < 3; i++ {
		kind := "file"
		if i == 0 && g.ctty {
			kind = "tty"
		}
		par.install(i, k.newFile(kind, fmt.Sprintf("caller-fd%d", i)), true)
	}
	for _, fd := range g.parentFds {
		label := fmt.Sprintf("caller-fd%d", fd)
		kind := "file"
		if fd == g.execFile {
			label = "exe-" + label
		}
		if fd == g.cgroupFd {
			kind = "cgroupdir"
		}
		// descriptors of the caller are close-on-exec as Go opens them; the launch must clear the flag only for listed ones
		par.install(fd, k.newFile(kind, label), true)
	}
	k.parent = par
	k.sockFds = g.sockFds
	r := &forkexec.Runner{
		Args: []string{"/bin/target", "arg"}, Env: []string{"A=B"},
		Files: append([]uintptr(nil), g.files...), ExecFile: uintptr(g.execFile), CgroupFd: uintptr(g.cgroupFd),
		Credential: nil, DropCaps: g.dropCaps, NoNewPrivs: g.nnp, Ptrace: g.ptrace, StopBeforeSeccomp: g.stopBefore,
		UnshareCgroupAfterSync: g.cgAfter, CloneFlags: g.flags, WorkDir: g.workdir, HostName: g.host, DomainName: g.domain, CTTY: g.ctty,
	}
	if g.badWorkdir {
		r.WorkDir = "/nonexistent-workdir"
	}
	if g.cred != nil {
		cr := *g.cred
		cr.Groups = append([]uint32(nil), g.cred.Groups...)
		r.Credential = &cr
	}
	if g.seccomp {
		f := []syscall.SockFilter{{Code: 0x06, K: 0x7fff0000}}
		r.Seccomp = &syscall.SockFprog{Len: 1, Filter: &f[0]}
	}
	if g.idmaps {
		r.UIDMappings = []syscall.SysProcIDMap{{ContainerID: 0, HostID: int(par.uid), Size: 1}, {ContainerID: 1000, HostID: 100000, Size: 10}}
		r.GIDMappings = []syscall.SysProcIDMap{{ContainerID: 0, HostID: int(par.gid), Size: 1}, {ContainerID: 1000, HostID: 100000, Size: 10}}
		if !g.parentRoot {
			r.UIDMappings, r.GIDMappings = r.UIDMappings[:1], r.GIDMappings[:1]
		}
		r.GIDMappingsEnableSetgroups = g.setgroupsOK
	}
	if g.pivot {
		r.PivotRoot = "/newroot"
		for i := 0; i < g.nMounts; i++ {
			m := mount.Mount{Source: fmt.Sprintf("/src%d", i), Target: fmt.Sprintf("m%d", i), Flags: unix.MS_BIND | unix.MS_NOSUID | unix.MS_PRIVATE | unix.MS_REC}
			if g.mountRO[i] {
				m.Flags |= unix.MS_RDONLY
			}
			if i == g.badMount {
				m.Source = "/nonexistent-source"
			}
			sp, err := m.ToSyscall()
			if err != nil {
				vcore.Harnessf("ToSyscall: %v", err)
			}
			r.Mounts = append(r.Mounts, *sp)
		}
	}
	lims := []rlimit.RLimit{
		{Res: syscall.RLIMIT_CPU, Rlim: syscall.Rlimit{Cur: 3, Max: 5}},
		{Res: syscall.RLIMIT_AS, Rlim: syscall.Rlimit{Cur: 1 << 33, Max: 1 << 33}},
		{Res: syscall.RLIMIT_FSIZE, Rlim: syscall.Rlimit{Cur: 1 << 20, Max: 1 << 20}},
	}
	r.RLimits = lims[:g.nRlimits]
	k.execErrno, k.execBusy = g.execErrno, g.execBusy
	return r, par
}

// s2Launch is the outcome of one Start under the stub kernel.
type s2Launch struct {
	pid        int
	err        error
	returned   bool
	snap       *ksnap
	child      *kproc
	cbCalls    int
	cbPid      int
	trace      []string
	deadlock   string
	runnerDiff string
	parentLeft []string // socket / proc descriptors still open in the caller afterwards
	nSys       int
	ktrace     []ktrace
	gate       string
	final      bool
	// the child announced itself at the sync point (wrote the sync word) during this launch
	syncWritten bool
}

type s2plan struct {
	actor    string // fault target: the ordinal-th system call of this actor
	failAt   int
	failKind string // errno | short | die
	errno    syscall.Errno
	sched    int // 0 seeded, 1 child first, 2 parent first
}

// s2Start runs starts (1 or 2) of one configuration in a fresh stub kernel.
func s2Start(c *vcore.Ctx, g *s2cfg, plan s2plan, starts int) []*s2Launch {
	k := newSimk(c)
	k.failAt, k.failKind = plan.failAt, plan.failKind
	r, par := g.build(k)
	if s2Hook != nil {
		s2Hook(k)
	}
	forkexec.VInstallKernel(k)
	defer forkexec.VInstallKernel(nil)
	var out []*s2Launch
	cur := &s2Launch{}
	if g.syncMode != 0 {
		r.SyncFunc = func(pid int) error {
			k.evCallbackStart = k.sysIdx
			cur.cbCalls++
			cur.cbPid = pid
			// gate: at this instant the child must be parked in its read and must not have exec'd
			if k.child != nil && k.child.execed {
				cur.gate = "the program was already executing when the callback started"
			}
			k.evCallbackEnd = k.sysIdx
			if g.syncMode == 2 {
				c.Fault("sync_callback_error")
				return errors.New("callback refused")
			}
			return nil
		}
	}
	before := deepCopyRunner(r)
	var beforeFilesBacking []uintptr
	beforeFilesBacking = append(beforeFilesBacking, r.Files...)
	main := k.spawn("parent", par, false, func() {
		for i := 0; i < starts; i++ {
			pid, err := r.Start()
			cur.pid, cur.err, cur.returned = pid, err, true
			cur.child = k.child
			if i+1 < starts {
				// between two starts the caller lets the first program begin, then disposes of it like a runner would
				if err == nil {
					k.park(k.cur, &sysreq{kind: "vforkwait"})
					k.Raw(syscall.SYS_KILL, uintptr(pid), uintptr(syscall.SIGKILL), 0, 0, 0, 0)
					var ws syscall.WaitStatus
					k.Raw(syscall.SYS_WAIT4, uintptr(pid), uintptr(unsafePtr(&ws)), 0, 0, 0, 0)
				}
				out = append(out, cur)
				nxt := &s2Launch{}
				k.finishLaunch(cur, r, before, beforeFilesBacking, par)
				cur = nxt
				k.resetLaunch()
			}
		}
	})
	_ = main
	k.schedule(plan, g)
	if cur.child == nil {
		cur.child = k.child
	}
	cur.final = true
	k.finishLaunch(cur, r, before, beforeFilesBacking, par)
	out = append(out, cur)
	s2LastTrace = k.renderTrace()
	for _, l := range out {
		l.trace = s2LastTrace
		l.ktrace = k.trace
		l.nSys = k.sysIdx
		l.deadlock = k.deadlock
	}
	// retire actors that can never run again
	for _, a := range k.actors {
		if !a.finished {
			a.grant <- kgrant{die: true}
			<-k.notify
		}
	}
	return out
}

func (k *simk) resetLaunch() {
	k.child, k.childAct = nil, nil
	k.evChildSyncWrite, k.evAckWrite, k.evCallbackStart, k.evCallbackEnd, k.evExec = -1, -1, -1, -1, -1
	k.childSyscallsBetween = nil
}

func (k *simk) finishLaunch(l *s2Launch, r, before *forkexec.Runner, filesBacking []uintptr, par *kproc) {
	if l.child != nil {
		l.snap = l.child.snap
	}
	l.syncWritten = k.evChildSyncWrite >= 0
	// caller's configuration must be unchanged
	after := deepCopyRunner(r)
	after.SyncFunc, before.SyncFunc = nil, nil
	if !reflect.DeepEqual(before, after) {
		l.runnerDiff = fmt.Sprintf("ExecFile %d->%d Files %v->%v CgroupFd %d->%d", before.ExecFile, after.ExecFile, before.Files, after.Files, before.CgroupFd, after.CgroupFd)
	}
	if l.final {
		for fd, e := range par.fds {
			if e.f.kind == "sock" || e.f.kind == "procfile" {
				l.parentLeft = append(l.parentLeft, fmt.Sprintf("%d(%s)", fd, e.f.label))
			}
		}
	}
	if len(k.childSyscallsBetween) > 0 && l.gate == "" {
		l.gate = fmt.Sprintf("between its sync write and the parent's ack the child performed %v", k.childSyscallsBetween)
	}
	if k.evExec >= 0 && k.evCallbackEnd >= 0 && k.evExec < k.evCallbackEnd && l.gate == "" {
		l.gate = "the exec happened before the callback returned"
	}
}

// schedule drives all actors to completion: one system call at a time, chosen by the simulator.
func (k *simk) schedule(plan s2plan, g *s2cfg) {
	c := k.c
	contDone := map[*kproc]bool{}
	for step := 0; step < 5000; step++ {
		var runnable []*kactor
		for _, a := range k.actors {
			if a.finished || !a.parked {
				continue
			}
			if !a.proc.alive {
				// cleanup: a parked actor of a dead process never runs again
				k.cur = a
				a.parked = false
				a.grant <- kgrant{die: true}
				<-k.notify
				continue
			}
			if k.ready(a) {
				runnable = append(runnable, a)
			}
		}
		// the harness acts as tracer for a self-stopped child once the parent's Start has returned
		if len(runnable) == 0 && k.child != nil && k.child.stopped && k.child.alive && !contDone[k.child] {
			contDone[k.child] = true
			k.child.stopped = false
			c.Event("tracer:cont")
			continue
		}
		if len(runnable) == 0 {
			// everything finished, or blocked for ever
			for _, a := range k.actors {
				if !a.finished && a.parked && a.proc.alive && a.pend != nil && a.name == "parent" {
					k.deadlock = fmt.Sprintf("parent blocked for ever in %s", sysName(a.pend.trap))
				}
			}
			return
		}
		var pick *kactor
		if len(runnable) == 1 {
			pick = runnable[0]
		} else {
			switch plan.sched {
			case 1, 2:
				for _, a := range runnable {
					if (plan.sched == 1) == a.isChild {
						pick = a
					}
				}
				if pick == nil {
					pick = runnable[0]
				}
			default:
				pick = runnable[c.Src.Int(len(runnable), "actor")]
			}
			c.MarkNonTrivial()
		}
		var gr kgrant
		if pick.pend.kind == "" && plan.failAt >= 0 && pick.name == plan.actor && pick.nsys == plan.failAt && !k.faultDone {
			k.faultDone = true
			f := &kfault{errno: plan.errno}
			switch plan.failKind {
			case "short":
				f.short = true
			case "die":
				f.die = true
			}
			gr.fault = f
			k.faultDesc = fmt.Sprintf("%s %s by %s (its call #%d)", plan.failKind, sysName(pick.pend.trap), pick.name, plan.failAt)
			c.Fault("syscall_" + plan.failKind)
		}
		c.Event(pick.name + ":" + sysName(pick.pend.trap) + pick.pend.kind)
		k.cur = pick
		pick.parked = false
		pick.grant <- gr
		<-k.notify
	}
	k.deadlock = "step bound exceeded"
}
