//go:build verif && !verifs2

package sim

import (
	"context"
	"fmt"
	"io"
	"os"
	"path/filepath"
	"strconv"
	"strings"
	"syscall"
	"time"

	"github.com/criyle/go-sandbox/pkg/pipe"
	"github.com/criyle/go-sandbox/pkg/rlimit"
	"github.com/criyle/go-sandbox/runner"
	"github.com/criyle/go-sandbox/zverif/vcore"
)

// C08: configured limits are in force with exactly the configured values, limits not configured
// are inherited, exhaustion yields the matching verdict, and the capped output collector keeps
// at most N+1 bytes without blocking or breaking the writer.

func parseRlimits(out *kOut) map[int][2]uint64 {
	m := map[int][2]uint64{}
	for _, l := range out.find("rlimit ") {
		f := strings.Fields(l)
		if len(f) != 4 {
			continue
		}
		r, _ := strconv.Atoi(f[1])
		cur, _ := strconv.ParseUint(f[2], 10, 64)
		max, _ := strconv.ParseUint(f[3], 10, 64)
		m[r] = [2]uint64{cur, max}
	}
	return m
}

func ownRlimits() map[int][2]uint64 {
	m := map[int][2]uint64{}
	for r := 0; r < 16; r++ {
		var l syscall.Rlimit
		if err := syscall.Getrlimit(r, &l); err == nil {
			m[r] = [2]uint64{l.Cur, l.Max}
		}
	}
	return m
}

func runKind(ctx context.Context, kind string, script []string, rl []rlimit.RLimit, lim runner.Limit, workdir string) (runner.Result, *kOut) {
	switch kind {
	case "ptrace":
		return kRunPtrace(ctx, &kOpts{script: script, filter: kFilterAllowAllBut(nil, nil), handler: &recHandler{}, rlimits: rl, limit: lim, workdir: workdir})
	case "unshare":
		return kRunUnshare(ctx, &kOpts{script: script, rlimits: rl, limit: lim, workdir: workdir})
	}
	ct := sharedContainer()
	return ct.exec(ctx, &kExec{script: script, rlimits: rl})
}

func c08Run(c *vcore.Ctx) *vcore.Violation {
	const prop = "C08"
	src := c.Src
	shape := src.Pick("shape", "report", "report", "report", "pipe", "pipe", "pipe", "verdict", "verdict")
	if shape == "pipe" {
		return c08Pipe(c)
	}
	kind := src.Pick("runner", "ptrace", "unshare", "container")
	c.Event("runner:" + kind)
	own := ownRlimits()
	if shape == "report" {
		var r rlimit.RLimits
		pickV := func(l string, vals ...uint64) uint64 { return vals[src.Int(len(vals), l)] }
		r.CPU = pickV("cpu", 0, 0, 1, 7, 1<<33)
		r.CPUHard = pickV("cpuhard", 0, 0, 3, 9, 1<<34)
		r.Data = pickV("data", 0, 0, 64<<20, 1<<33+4096)
		r.FileSize = pickV("fsize", 0, 0, 1<<20, 1<<35)
		r.Stack = pickV("stack", 0, 0, 8<<20, 1<<32+8192)
		r.AddressSpace = pickV("as", 0, 0, 1<<32+4096, 1<<34) // below the 32 GiB hard limit bin/check runs under (no CAP_SYS_RESOURCE here)
		r.OpenFile = pickV("nofile", 0, 0, 64, 1000, 1000, own[syscall.RLIMIT_NOFILE][1]+10000)
		// (the last value lies above the caller's own hard limit, which nobody here may raise: the launch
		// must then be refused - never go ahead under some other limit)
		aboveHard := r.OpenFile > own[syscall.RLIMIT_NOFILE][1]
		if aboveHard {
			c.Fault("limit_above_callers_hard_limit")
		}
		r.DisableCore = src.Bool(1, 2, "core")
		rl := r.PrepareRLimit()
		// a raw list may also be given directly, in any order
		if src.Bool(1, 4, "rawlist") {
			rl = []rlimit.RLimit{{Res: syscall.RLIMIT_NOFILE, Rlim: syscall.Rlimit{Cur: 100, Max: 200}}, {Res: syscall.RLIMIT_CPU, Rlim: syscall.Rlimit{Cur: 5, Max: 1 << 33}}}
			r = rlimit.RLimits{}
			aboveHard = false
		}
		c.Logf("runner=%s limits=%v", kind, rl)
		c.Event(fmt.Sprintf("limits:%v", rl))
		if len(rl) > 0 {
			c.MarkNonTrivial()
		}
		var res runner.Result
		var out *kOut
		if !watchdog(60*time.Second, func() {
			res, out = runKind(context.Background(), kind, []string{"state", "exit", "0"}, rl, runner.Limit{}, "")
		}) {
			return vcore.Violate(prop, "hang", kind, "run did not return")
		}
		if aboveHard && res.Status == runner.StatusRunnerError && res.Error != "" {
			c.Probe("limit_above_hard_refused")
			return nil
		}
		if res.Status != runner.StatusNormal {
			return vcore.Violate(prop, "launch_failed", kind, "a program under limits %v did not run normally: %s %s", rl, statusName(res.Status), res.Error)
		}
		got := parseRlimits(out)
		if len(got) != 16 {
			return vcore.Violate(prop, "no_report", kind, "probe reported %d limits", len(got))
		}
		want := map[int][2]uint64{}
		for k, v := range own {
			want[k] = v
		}
		for _, l := range rl {
			want[l.Res] = [2]uint64{l.Rlim.Cur, l.Rlim.Max}
		}
		if r.CPU > 0 && r.CPUHard < r.CPU {
			if got[syscall.RLIMIT_CPU][1] < got[syscall.RLIMIT_CPU][0] {
				return vcore.Violate(prop, "cpu_hard_below_soft", kind, "CPU limit soft %d hard %d", got[0][0], got[0][1])
			}
		}
		for res := 0; res < 16; res++ {
			if got[res] != want[res] {
				configured := "inherited"
				for _, l := range rl {
					if l.Res == res {
						configured = "configured"
					}
				}
				return vcore.Violate(prop, "limit_value", fmt.Sprintf("%s/res%d/%s", kind, res, configured), "resource %d (%s): the program sees %v, expected %v (own limits of the caller: %v)", res, configured, got[res], want[res], own[res])
			}
		}
		return nil
	}
	// verdict shapes
	what := src.Pick("verdict", "time_limit", "memory_limit", "fsize", "cpu_rlimit", "within")
	c.Event("verdict:" + what)
	c.MarkNonTrivial()
	var rl []rlimit.RLimit
	lim := bigLimit
	var script []string
	wantS := runner.StatusNormal
	dir := c.Dir
	switch what {
	case "time_limit":
		lim = runner.Limit{TimeLimit: 40 * time.Millisecond, MemoryLimit: bigLimit.MemoryLimit}
		script = append([]string{"burn", "150"}, overEnd(src)...)
		wantS = runner.StatusTimeLimitExceeded
	case "memory_limit":
		lim = runner.Limit{TimeLimit: time.Hour, MemoryLimit: runner.Size(24 << 20)}
		script = append([]string{"alloc", "64"}, overEnd(src)...)
		wantS = runner.StatusMemoryLimitExceeded
	case "fsize":
		rl = []rlimit.RLimit{{Res: syscall.RLIMIT_FSIZE, Rlim: syscall.Rlimit{Cur: 8192, Max: 8192}}}
		target := filepath.Join(dir, "grow.out")
		if kind == "container" {
			target = "/w/grow.out"
		}
		if kind == "unshare" {
			kind = "ptrace" // the namespace runner's program is the init of its pid namespace: SIGXFSZ with default action is ignored there
		}
		script = []string{"grow", target, "100000", "exit", "3"} // no "dfl": the limit signal must work with the dispositions the runner hands over
		wantS = runner.StatusOutputLimitExceeded
	case "cpu_rlimit":
		if !src.Bool(1, 4, "cpu_costly") {
			what = "within"
			script = []string{"burn", "5", "exit", "0"}
			break
		}
		rl = []rlimit.RLimit{{Res: syscall.RLIMIT_CPU, Rlim: syscall.Rlimit{Cur: 1, Max: 2}}}
		script = []string{"burn", "2500", "exit", "0"}
		wantS = runner.StatusTimeLimitExceeded
	default:
		script = []string{"burn", "5", "alloc", "4", "exit", "0"}
	}
	if kind == "container" && (what == "time_limit" || what == "memory_limit") {
		// the container relays rusage; its Execve has no Limit parameter: bounds are the runner's business there
		kind = "ptrace"
	}
	c.Logf("runner=%s verdict-shape=%s rlimits=%v limit=%v script=%v", kind, what, rl, lim, script)
	var res runner.Result
	if !watchdog(90*time.Second, func() { res, _ = runKind(context.Background(), kind, script, rl, lim, "") }) {
		return vcore.Violate(prop, "hang", kind, "run did not return")
	}
	c.Logf("result %s exit=%d time=%v mem=%v err=%q", statusName(res.Status), res.ExitStatus, res.Time, res.Memory, res.Error)
	if res.Status != wantS {
		return vcore.Violate(prop, "wrong_verdict", kind+"/"+what, "%s: got %s (exit %d, %s), expected %s", what, statusName(res.Status), res.ExitStatus, res.Error, statusName(wantS))
	}
	if what == "time_limit" && res.Time <= lim.TimeLimit {
		return vcore.Violate(prop, "measurement_missing", kind+"/time", "Time Limit Exceeded reported with Time=%v not above the bound %v", res.Time, lim.TimeLimit)
	}
	if what == "memory_limit" && res.Memory <= lim.MemoryLimit {
		return vcore.Violate(prop, "measurement_missing", kind+"/memory", "Memory Limit Exceeded reported with Memory=%v not above the bound %v", res.Memory, lim.MemoryLimit)
	}
	return nil
}

// slowWriter is the io.Writer seam of pipe.NewPipe: a consumer whose pace the simulator decides.
type slowWriter struct {
	n      int
	delays []time.Duration
	i      int
}

func (s *slowWriter) Write(p []byte) (int, error) {
	if s.i < len(s.delays) {
		time.Sleep(s.delays[s.i])
		s.i++
	}
	s.n += len(p)
	return len(p), nil
}

func c08Pipe(c *vcore.Ctx) *vcore.Violation {
	const prop = "C08"
	src := c.Src
	n := []int64{0, 1, 10, 4096, 65536, 65537, 100000}[src.Int(7, "cap")]
	vol := []int64{0, n - 1, n, n + 1, n + 2, 65536, 65537, n * 3, 1 << 20}[src.Int(9, "volume")]
	if vol < 0 {
		vol = 0
	}
	useProcess := src.Bool(1, 2, "writer_process")
	// the writer may stop for a while in the middle of its output (a program that computes between two
	// prints): the collector must neither block it nor break its pipe, however long after the cap was reached
	pause := []time.Duration{0, 0, 0, 0, 0, 0, 100 * time.Millisecond, 100 * time.Millisecond, 2500 * time.Millisecond, 6 * time.Second}[src.Int(10, "writer_pause")]
	pauseAt := vol / 2
	if src.Bool(1, 2, "pause_after_cap") && vol > n+1 {
		pauseAt = n + 1 + (vol-n-1)/2
	}
	if vol < 2 {
		pause = 0
	}
	if pause > 0 {
		c.Fault("writer_pauses_mid_output")
	}
	c.Logf("collector cap=%d volume=%d writer=%s pause=%v after %d bytes", n, vol, map[bool]string{true: "probe process", false: "goroutine"}[useProcess], pause, pauseAt)
	c.Event(fmt.Sprintf("pipe:%d:%d:%v", n, vol, useProcess))
	c.MarkNonTrivial()
	buf, err := pipe.NewBuffer(n)
	if err != nil {
		vcore.Harnessf("NewBuffer: %v", err)
	}
	var wrote int64
	var werr error
	ok := watchdog(30*time.Second, func() {
		if useProcess {
			// the sandboxed program writes to the collector's pipe as its stdout, reports on descriptor 2
			w, out, _ := kPipe()
			script := []string{"out", "2", "write", "1", fmt.Sprint(vol), "exit", "0"}
			if pause > 0 {
				script = []string{"out", "2", "write", "1", fmt.Sprint(pauseAt), "sleep", fmt.Sprint(pause.Milliseconds()), "write", "1", fmt.Sprint(vol - pauseAt), "exit", "0"}
			}
			res, _ := runWithStdout(buf.W, w, script)
			w.Close()
			out.wait(20 * time.Second)
			for _, l := range out.find("wrote ") {
				f := strings.Fields(l)
				k, _ := strconv.ParseInt(f[1], 10, 64)
				wrote += k
				if f[2] != "0" {
					werr = fmt.Errorf("write errno %s", f[2])
				}
			}
			if res.Status != runner.StatusNormal {
				werr = fmt.Errorf("writer ended as %s (%d) %s", statusName(res.Status), res.ExitStatus, res.Error)
			}
		} else {
			chunk := []int{1, 7, 512, 4096, 65536}[src.Int(5, "chunk")]
			data := make([]byte, chunk)
			paused := pause == 0
			for wrote < vol {
				if !paused && wrote >= pauseAt {
					paused = true
					time.Sleep(pause)
				}
				k := int64(chunk)
				if vol-wrote < k {
					k = vol - wrote
				}
				if !paused && wrote+k > pauseAt {
					k = pauseAt - wrote
				}
				m, err := buf.W.Write(data[:k])
				wrote += int64(m)
				if err != nil {
					werr = err
					break
				}
			}
		}
		buf.W.Close()
		<-buf.Done
	})
	if !ok {
		return vcore.Violate(prop, "collector_blocked", "pipe", "writer of %d bytes into a collector capped at %d did not finish", vol, n)
	}
	if werr != nil {
		return vcore.Violate(prop, "writer_broken", "pipe", "writer failed after %d of %d bytes: %v", wrote, vol, werr)
	}
	if wrote != vol {
		return vcore.Violate(prop, "writer_broken", "pipe/short", "writer wrote %d of %d bytes", wrote, vol)
	}
	want := vol
	if want > n+1 {
		want = n + 1
	}
	if got := int64(buf.Buffer.Len()); got != want {
		kind := "retained_wrong"
		if got > n+1 {
			kind = "retained_too_much"
		}
		return vcore.Violate(prop, kind, "pipe", "collector capped at %d retained %d bytes of %d written (expected %d)", n, got, vol, want)
	}
	return nil
}

// runWithStdout runs the probe under the ptrace runner with its stdout on the given file.
func runWithStdout(stdout *os.File, report *os.File, script []string) (runner.Result, *kOut) {
	o := &kOpts{script: script, filter: kFilterAllowAllBut(nil, nil), handler: &recHandler{}}
	return kRunPtraceFiles(context.Background(), o, []uintptr{nullFile().Fd(), stdout.Fd(), report.Fd()})
}

var _ = io.Discard

// overEnd: how a program that has used more than the runner's bound ends - cleanly, with an exit code, or by a
// crash; the measurement is above the bound in every case, and that is what the statement makes the verdict of
func overEnd(src *vcore.Source) []string {
	switch src.Pick("over_end", "exit0", "exit0", "exit3", "crash") {
	case "exit3":
		return []string{"exit", "3"}
	case "crash":
		return []string{"segv"}
	}
	return []string{"exit", "0"}
}

func init() {
	register(&vcore.Prop{
		ID: "C08", Level: "exploration", Worlds: "K",
		Rule:       "one run = one of: (report) an rlimit.RLimits record with each field zero / small / above 2^32, CPU soft<hard and hard<soft, or a raw list, given to the ptrace runner, the namespace runner or a container, the probe reporting all 16 limits (configured ones must match exactly, the others must equal the caller's); (verdict) a program exceeding runner.Limit time or memory, RLIMIT_FSIZE, RLIMIT_CPU (costly, a small share), or staying within; (pipe) pipe.NewBuffer(N) for N in {0,1,10,4096,65536,65537,100000} fed V bytes for V around N and 64 KiB by a goroutine (chunk sizes 1..65536) or by a probe process. distinct = hash of (shape, runner, sizes); non-trivial = limits configured / verdict shape / pipe shape",
		Components: kComponents, Assumptions: append([]string{"this VM lacks CAP_SYS_RESOURCE: configured hard limits stay below the caller's", "the namespace runner's program is the init of its pid namespace, which ignores SIGXFSZ/SIGXCPU with default action: those verdict shapes use the other runners"}, kAssume...), NeedNS: true,
		Quick:    vcore.Budget{Wall: 30 * time.Second, Shards: 16},
		Thorough: vcore.Budget{Wall: 10 * time.Minute, Shards: 16},
		Init:     kInit, Run: c08Run, StallLimit: 150 * time.Second,
	})
}
