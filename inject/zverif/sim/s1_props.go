//go:build verif

package sim

import (
	"time"

	"github.com/criyle/go-sandbox/zverif/vcore"
)

var s1Components = map[string]string{
	"container host side (Execve/waitForDone/Open/Ping/Destroy/send+recv loops)":            "real (constructor tail of startContainer extracted by seamgen)",
	"container server side (serve/handleExecve/handleExecveStarted/handle*/send+recv+wait)": "real (constructor tail of Init extracted by seamgen)",
	"gob framing (container/socket_linux.go)":                                               "real",
	"file operations of Open/Delete/Symlink/Reset":                                          "real, on a scratch tree, unprivileged",
	"transport (pkg/unixsocket SendMsg/RecvMsg/Close/SetDeadline)":                          "stub: in-memory ordered reliable packets, delivery is a simulator event",
	"processes (forkexec.Runner.Start, kill, wait4)":                                        "stub: process table obeying forkexec's contract",
	"clock": "stub: testing/synctest fake clock",
	"goroutine scheduling inside the container package": "simulator: one event at a time with quiescence in between; at every select the simulator chooses the goroutine and the case (select seam); the environment's mutex is a channel lock (durably blocking)",
}

func s1Shape10(c *vcore.Ctx) *s1Shape {
	src := c.Src
	sh := &s1Shape{prop: "C10"}
	sh.nOps = 1 + src.Int(10, "nops")
	sh.delays = src.Bool(3, 4, "shape_delays")
	sh.cancels = src.Bool(1, 3, "shape_cancels")
	sh.faultClose = src.Bool(1, 4, "shape_fault_close")
	switch src.Int(4, "shape_mix") {
	case 0:
		sh.opMix = []string{"execve"}
	case 1:
		sh.opMix = []string{"execve", "execve", "ping", "open", "delete", "symlink", "reset"}
	case 2:
		sh.opMix = []string{"execve", "ping"}
	default:
		sh.opMix = []string{"execve", "execve", "execve", "open", "reset", "symlink"}
	}
	sh.bigMsg = src.Bool(1, 5, "shape_refused")
	sh.kinds = kindSet("container_exit", "wrong_answer", "unexpected_error", "hang", "hang_after_transport_loss", "success_after_transport_loss",
		"stray_reply", "spurious_kill", "sync_pid", "misaligned", "child_left_running")
	c.Logf("shape: nops=%d delays=%v cancels=%v close-faults=%v refused-messages=%v mix=%v", sh.nOps, sh.delays, sh.cancels, sh.faultClose, sh.bigMsg, sh.opMix)
	return sh
}

func kindSet(k ...string) map[string]bool {
	m := map[string]bool{}
	for _, x := range k {
		m[x] = true
	}
	return m
}

// s1Stall classifies a real-time stall of the bubble: some goroutine of the code under test sits
// in a real blocking system call (e.g. open(2) of a FIFO) or waits for a lock that is never released.
func s1Stall(prop string) func(c *vcore.Ctx) *vcore.Violation {
	return func(c *vcore.Ctx) *vcore.Violation {
		last := ""
		for _, l := range c.Log {
			if len(l) > 3 && l[:3] == "op " {
				last = l
			}
		}
		return vcore.Violate(prop, "hang", "blocked_in_real_call", "no progress for 20s of real time during %q: a goroutine of the environment is blocked in a real system call or on a lock that is never released", last)
	}
}

func s1Shape11(c *vcore.Ctx) *s1Shape {
	src := c.Src
	sh := &s1Shape{prop: "C11", cancels: true, precancel: true, delays: true}
	sh.nOps = 1 + src.Int(4, "nops")
	sh.destroyMid = src.Bool(1, 2, "shape_destroy")
	sh.faultClose = false
	if src.Bool(1, 3, "shape_mix") {
		sh.opMix = []string{"execve", "execve", "open", "ping"}
	} else {
		sh.opMix = []string{"execve"}
	}
	sh.kinds = kindSet("hang", "hang_after_transport_loss", "cancel_verdict", "destroy_hang", "child_left_running", "child_not_reaped", "wrong_answer", "spurious_kill", "success_after_transport_loss")
	c.Logf("shape: nops=%d destroy-in-flight=%v mix=%v", sh.nOps, sh.destroyMid, sh.opMix)
	return sh
}

func s1Shape12(c *vcore.Ctx) *s1Shape {
	src := c.Src
	sh := &s1Shape{prop: "C12", delays: true, precancel: true}
	sh.nOps = 1 + src.Int(30, "nops")
	sh.cancels = src.Bool(1, 2, "shape_cancels")
	sh.faultClose = src.Bool(1, 4, "shape_fault_close")
	sh.destroyMid = src.Bool(1, 4, "shape_destroy")
	sh.opMix = []string{"execve", "execve", "execve", "open", "open", "symlink", "delete", "reset", "ping"}
	sh.bigMsg = src.Bool(1, 6, "shape_refused")
	sh.kinds = kindSet("fd_leak", "goroutine_leak", "child_left_running", "child_not_reaped")
	c.Logf("shape: nops=%d cancels=%v close-faults=%v destroy-in-flight=%v refused-messages=%v", sh.nOps, sh.cancels, sh.faultClose, sh.destroyMid, sh.bigMsg)
	return sh
}

func s1Shape14(c *vcore.Ctx) *s1Shape {
	src := c.Src
	sh := &s1Shape{prop: "C14", delays: src.Bool(1, 2, "shape_delays"), batchHeavy: true}
	sh.nOps = 1 + src.Int(8, "nops")
	sh.faultClose = src.Bool(1, 6, "shape_fault_close")
	sh.opMix = []string{"open", "open", "open", "symlink", "delete", "ping"}
	sh.bigMsg = src.Bool(1, 8, "shape_refused")
	sh.kinds = kindSet("misaligned", "non_regular", "wrong_mode", "not_cloexec", "bad_descriptor", "delete_lied", "unexpected_error", "spurious_item_failure", "hang", "container_exit", "fd_leak")
	c.Logf("shape: nops=%d delays=%v close-faults=%v refused-messages=%v", sh.nOps, sh.delays, sh.faultClose, sh.bigMsg)
	return sh
}

var c10S1, c11S1, c12S1, c14S1 *vcore.Prop

func init() {
	c11S1 = (&vcore.Prop{
		ID: "C11", Level: "exploration", Worlds: "S1",
		Rule:        "one run = 1..4 operations (mostly Execve of a program that exits at a simulator-chosen step or never) in one synctest bubble; the context is cancelled, or Destroy is called from another goroutine, at a simulator-chosen event boundary of the call (before the request leaves, while it is queued, during sync, while the program runs, after it exited, while the result is queued). distinct = hash of ordered event kinds; non-trivial = a cancel/Destroy/non-FIFO decision fired",
		Components:  s1Components,
		Assumptions: []string{"process deaths are stub events; real kill/wait races of the three runners are world K's"},
		Quick:       vcore.Budget{Wall: 30 * time.Second, Shards: 16},
		Thorough:    vcore.Budget{Wall: 15 * time.Minute, Shards: 16},
		Init:        s1Init, StallLimit: 20 * time.Second, OnStall: s1Stall("C11"),
		Run: func(c *vcore.Ctx) *vcore.Violation { return s1RunHistory(c, s1Shape11(c)) },
	})
	c12S1 = (&vcore.Prop{
		ID: "C12", Level: "exploration", Worlds: "S1",
		Rule:        "one run = a history of 1..30 environment operations (successes, every launch-failure stage, cancellations, transport faults, Destroy in flight) followed by Destroy, in one synctest bubble; descriptors in transit carry unique numbers so that after the run every descriptor either side received must be closed or handed to the caller; every goroutine of the host-side environment must have ended. distinct = hash of ordered event kinds; non-trivial = a fault or non-FIFO decision fired",
		Components:  s1Components,
		Assumptions: []string{"process residue of real programs is world K's; S1 counts protocol-level residue exactly"},
		Quick:       vcore.Budget{Wall: 30 * time.Second, Shards: 16},
		Thorough:    vcore.Budget{Wall: 15 * time.Minute, Shards: 16},
		Init:        s1Init, StallLimit: 20 * time.Second, OnStall: func(*vcore.Ctx) *vcore.Violation { return nil },
		Run: func(c *vcore.Ctx) *vcore.Violation { return s1RunHistory(c, s1Shape12(c)) },
	})
	c14S1 = (&vcore.Prop{
		ID: "C14", Level: "exploration", Worlds: "S1",
		Rule:        "one run = 1..8 Open/Symlink/Delete calls with batches of 0..12 items over a scratch tree in which adversarial objects (symlink to file/dir/FIFO/outside, dangling and self links, FIFO, socket, directory, unreadable file) are planted before each call; every returned descriptor is compared by (dev, inode), access mode and close-on-exec with the path requested at its index. distinct = hash of ordered event kinds plus planted kinds; non-trivial = something was planted or a fault/non-FIFO decision fired",
		Components:  s1Components,
		Assumptions: []string{"objects are planted by the simulator between calls, not by a concurrently running program"},
		Quick:       vcore.Budget{Wall: 30 * time.Second, Shards: 16},
		Thorough:    vcore.Budget{Wall: 15 * time.Minute, Shards: 16},
		Init:        s1Init, StallLimit: 20 * time.Second, OnStall: s1Stall("C14"),
		Run: func(c *vcore.Ctx) *vcore.Violation { return s1RunHistory(c, s1Shape14(c)) },
	})
	c10S1 = (&vcore.Prop{
		ID: "C10", Level: "exploration", Worlds: "S1",
		Rule:       "one run = one generated history of 1..10 environment operations (+ Ping and a successful Execve as epilogue) with a per-Execve failure stage, executed against both RPC endpoints in one synctest bubble; after every quiescence the simulator picks the next event (deliver head of either queue, child exit, cancel, transport close, clock tick). distinct = hash of the ordered event-kind sequence; non-trivial = at least one fault fired or one non-FIFO scheduling decision was taken",
		Components: s1Components,
		Assumptions: []string{
			"stub processes obey forkexec's documented contract (fail before callback / callback then fail / run); real wait4/kill semantics are world K's",
			"every select of the container package is rewritten in the scratch copy (seamgen selectSeam): the goroutine parks in front of it and the simulator names the one case it may try, so states with several ready cases are constructed and the choice among them is the simulator's; the three selects the rule leaves alone (a default clause, an unlabelled continue in a body, nested in a case) run natively",
		},
		NeedNS:   false,
		Quick:    vcore.Budget{Wall: 40 * time.Second, Shards: 16},
		Thorough: vcore.Budget{Wall: 20 * time.Minute, Shards: 16},
		Init:     s1Init, StallLimit: 20 * time.Second, OnStall: s1Stall("C10"),
		Run: func(c *vcore.Ctx) *vcore.Violation { return s1RunHistory(c, s1Shape10(c)) },
	})
}
