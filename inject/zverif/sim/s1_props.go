//go:build verif

package sim

import (
	"time"

	"github.com/criyle/go-sandbox/zverif/vcore"
)

var s1Components = map[string]string{
	"container host side (Execve/waitForDone/Open/Ping/Destroy/send+recv loops)":            "real (constructor tail of startContainer extracted by seamgen)",
	"container server side (serve/handleExecve/handleExecveStarted/handle*/send+recv+wait)": "real (constructor tail of Init extracted by seamgen)",
	"gob framing (container/socket_linux.go)":                                               "real",
	"file operations of Open/Delete/Symlink/Reset":                                          "real, on a scratch tree, unprivileged",
	"transport (pkg/unixsocket SendMsg/RecvMsg/Close/SetDeadline)":                          "stub: in-memory ordered reliable packets, delivery is a simulator event",
	"processes (forkexec.Runner.Start, kill, wait4)":                                        "stub: process table obeying forkexec's contract",
	"clock": "stub: testing/synctest fake clock",
}

func s1Shape10(c *vcore.Ctx) *s1Shape {
	src := c.Src
	sh := &s1Shape{prop: "C10"}
	sh.nOps = 1 + src.Int(10, "nops")
	sh.delays = src.Bool(3, 4, "shape_delays")
	sh.cancels = src.Bool(1, 3, "shape_cancels")
	sh.faultClose = src.Bool(1, 4, "shape_fault_close")
	switch src.Int(4, "shape_mix") {
	case 0:
		sh.opMix = []string{"execve"}
	case 1:
		sh.opMix = []string{"execve", "execve", "ping", "open", "delete", "symlink", "reset"}
	case 2:
		sh.opMix = []string{"execve", "ping"}
	default:
		sh.opMix = []string{"execve", "execve", "execve", "open", "reset", "symlink"}
	}
	c.Logf("shape: nops=%d delays=%v cancels=%v close-faults=%v mix=%v", sh.nOps, sh.delays, sh.cancels, sh.faultClose, sh.opMix)
	return sh
}

func init() {
	register(&vcore.Prop{
		ID: "C10", Level: "exploration", Worlds: "S1",
		Rule:       "one run = one generated history of 1..10 environment operations (+ Ping and a successful Execve as epilogue) with a per-Execve failure stage, executed against both RPC endpoints in one synctest bubble; after every quiescence the simulator picks the next event (deliver head of either queue, child exit, cancel, transport close, clock tick). distinct = hash of the ordered event-kind sequence; non-trivial = at least one fault fired or one non-FIFO scheduling decision was taken",
		Components: s1Components,
		Assumptions: []string{
			"stub processes obey forkexec's documented contract (fail before callback / callback then fail / run); real wait4/kill semantics are world K's",
			"states with two simultaneously ready select cases are not constructed (Go runtime picks among them at random and no seam can pin it)",
		},
		NeedNS:   false,
		Quick:    vcore.Budget{Wall: 40 * time.Second, Shards: 16},
		Thorough: vcore.Budget{Wall: 20 * time.Minute, Shards: 16},
		Init:     s1Init,
		Run:      func(c *vcore.Ctx) *vcore.Violation { return s1RunHistory(c, s1Shape10(c)) },
	})
}
