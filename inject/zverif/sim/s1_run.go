//go:build verif

package sim

import (
	"github.com/criyle/go-sandbox/pkg/seccomp"
	"context"
	"errors"
	"fmt"
	"os"
	"path/filepath"
	"runtime"
	"strings"
	"syscall"
	"testing"
	"testing/synctest"
	"time"

	"github.com/criyle/go-sandbox/container"
	"github.com/criyle/go-sandbox/runner"
	"github.com/criyle/go-sandbox/zverif/vcore"
	"golang.org/x/sys/unix"
)

// s1Shape is the swarm shape of one S1 run (first draws of the run).
type s1Shape struct {
	prop       string
	nOps       int
	faultClose bool // transport-close faults enabled
	cancels    bool // context cancellation enabled
	destroyMid bool // Destroy from another goroutine while a call is in flight
	delays     bool // non-FIFO-immediate delivery decisions enabled
	batchHeavy bool // Open/Symlink heavy workload (C14)
	bigMsg     bool // oversize request shape
	opMix      []string
	precancel  bool
	kinds      map[string]bool // oracle clauses this property owns (nil = all)
}

type s1op struct {
	kind      string // ping open delete symlink reset execve
	plan      execPlan
	stage     string // human name of the execve failure stage
	code      int
	syncFail  bool
	syncAfter bool
	args      []string
	env       []string
	open      []container.OpenCmd
	links     []container.SymbolicLink
	path      string
	nfiles    int
	fdExec    bool
	fdCgroup  bool // a descriptor for clone-into-cgroup travels ahead of the file list too
	seccomp   bool // a filter travels with the request
	cancelOK  bool
	badFile   int // >0: a descriptor number that is not open, at this position of the file list
	manyFiles int // >0: so many entries in the file list
	pre       []string // per Open item, what was at the path before the call: absent|regular|other|noparent
}

type s1res struct {
	err     error
	res     runner.Result
	open    []container.OpenCmdResult
	linkErr []error
	syncPid int
	synced  bool
}

// s1Dir prepares the per-worker scratch tree used by S1 file operations.
func s1InitDir(dir string) (string, error) {
	root := filepath.Join(dir, "s1root")
	os.RemoveAll(root)
	for _, d := range []string{"bin", "w", "tmp", "data"} {
		if err := os.MkdirAll(filepath.Join(root, d), 0777); err != nil {
			return "", err
		}
	}
	if err := os.WriteFile(filepath.Join(root, "bin", "prog"), []byte("#!/bin/true\n"), 0755); err != nil {
		return "", err
	}
	if err := os.WriteFile(filepath.Join(root, "bin", "noexec"), []byte("data\n"), 0644); err != nil {
		return "", err
	}
	return root, nil
}

var s1Root string

func s1Init(dir, tier string) error {
	r, err := s1InitDir(dir)
	if err != nil {
		return err
	}
	s1Root = r
	if err := os.Chdir(filepath.Join(r, "w")); err != nil {
		return err
	}
	var lim syscall.Rlimit
	if err := syscall.Getrlimit(syscall.RLIMIT_NOFILE, &lim); err != nil || lim.Cur < 20000 {
		return fmt.Errorf("RLIMIT_NOFILE too low for transit descriptor ranges: %v %v", lim, err)
	}
	// in-process worlds need no privilege: drop it so that file operations of the code under
	// test (Reset, Delete, MkdirAll) can never touch anything outside the scratch tree
	os.Chown(dir, 65534, 65534)
	filepath.Walk(r, func(p string, _ os.FileInfo, _ error) error { os.Lchown(p, 65534, 65534); return nil })
	if os.Getuid() == 0 {
		if err := syscall.Setgroups(nil); err != nil {
			return err
		}
		if err := syscall.Setgid(65534); err != nil {
			return err
		}
		if err := syscall.Setuid(65534); err != nil {
			return err
		}
	}
	return nil
}

func s1ResetTree() {
	for _, d := range []string{"w", "tmp", "data"} {
		p := filepath.Join(s1Root, d)
		ents, _ := os.ReadDir(p)
		for _, e := range ents {
			q := filepath.Join(p, e.Name())
			if e.IsDir() {
				filepath.Walk(q, func(x string, fi os.FileInfo, err error) error {
					if err == nil && fi.IsDir() {
						os.Chmod(x, 0777)
					}
					return nil
				})
			}
			os.RemoveAll(q)
		}
	}
	os.Chmod(filepath.Join(s1Root, "bin", "prog"), 0755)
	os.Chmod(filepath.Join(s1Root, "bin", "noexec"), 0644)
}

// genExecve draws one Execve operation with its failure stage.
func genExecve(c *vcore.Ctx, usedCodes map[int]bool) *s1op {
	src := c.Src
	op := &s1op{kind: "execve", args: []string{filepath.Join(s1Root, "bin", "prog"), "x"}, env: []string{"PATH=" + filepath.Join(s1Root, "bin")}}
	op.syncAfter = src.Bool(1, 4, "syncAfter")
	op.nfiles = src.Int(3, "nfiles")
	op.fdExec = src.Bool(1, 4, "fexecve") // the executable travels as a descriptor ahead of the file list
	op.fdCgroup = src.Bool(1, 5, "cgroupfd")
	op.seccomp = src.Bool(1, 5, "filter")
	st := src.Int(12, "stage")
	switch {
	case st == 0:
		op.stage, op.plan = "reject_unknown_exe", planRun
		op.args = []string{"no-such-program"}
	case st == 1:
		op.stage, op.plan = "reject_nonexec", planRun
		op.args = []string{"noexec"}
	case st == 2:
		op.stage, op.plan = "reject_no_path", planRun
		op.args = []string{"prog"}
		op.env = nil
	case st == 3:
		op.stage, op.plan = "empty_args", planRun
		op.args = nil
	case st == 4:
		op.stage, op.plan = "fail_before_sync", planFailBeforeSync
	case st == 5:
		op.stage, op.plan = "fail_at_sync", planRun
		op.syncFail = true
	case st == 6 || st == 7:
		op.stage, op.plan = "fail_after_sync", planFailAfterSync
	case st == 8:
		op.stage, op.plan = "lookup_in_path", planRun
		op.args = []string{"prog"}
		if src.Bool(1, 3, "path_with_empty_element") {
			// an empty element of PATH means the working directory (where there is no such program)
			op.env = []string{"PATH=:" + filepath.Join(s1Root, "bin") + ":"}
		}
	default:
		op.stage, op.plan = "run", planRun
	}
	// unique exit value per history so that a result is attributable to exactly one call
	for {
		op.code = 1 + src.Int(250, "code")
		if !usedCodes[op.code] {
			usedCodes[op.code] = true
			break
		}
	}
	if src.Bool(1, 10, "exit0") {
		op.code = 0
	}
	return op
}

func genOpen(c *vcore.Ctx, heavy bool) *s1op {
	src := c.Src
	n := src.Int(4, "nopen")
	if heavy {
		n = src.Int(13, "nopen")
	}
	if src.Bool(1, 12, "open_empty") {
		n = 0
	} else if n == 0 {
		n = 1
	}
	op := &s1op{kind: "open"}
	for i := 0; i < n; i++ {
		op.open = append(op.open, genOpenItem(c, i))
	}
	return op
}

func genOpenItem(c *vcore.Ctx, i int) container.OpenCmd {
	src := c.Src
	dir := filepath.Join(s1Root, src.Pick("opendir", "w", "tmp", "data"))
	name := fmt.Sprintf("f%d", src.Int(6, "fname"))
	flagsAcc := []int{os.O_RDONLY, os.O_WRONLY, os.O_RDWR}[src.Int(3, "acc")]
	fl := flagsAcc
	if src.Bool(1, 2, "creat") {
		fl |= os.O_CREATE
	}
	if src.Bool(1, 4, "trunc") {
		fl |= os.O_TRUNC
	}
	if src.Bool(1, 8, "excl") {
		fl |= os.O_EXCL
	}
	if src.Bool(1, 8, "append") {
		fl |= os.O_APPEND
	}
	o := container.OpenCmd{Path: filepath.Join(dir, name), Flag: fl, Perm: 0644}
	switch src.Int(8, "openkind") {
	case 0:
		o.Path = filepath.Join(dir, "sub", fmt.Sprintf("d%d", src.Int(2, "sub")), name)
		o.MkdirAll = src.Bool(1, 2, "mkdirall")
	case 1:
		o.Path = filepath.Join(dir, "missingdir", name)
	case 2:
		o.Path = dir // a directory
	case 3:
		o.Path = filepath.Join(dir, strings.Repeat("n", 300)) // ENAMETOOLONG
		if src.Bool(1, 2, "mkdirall_below_a_file") {
			// the directories to be made lie below something that is not a directory (when it is there)
			o.Path = filepath.Join(dir, fmt.Sprintf("f%d", src.Int(6, "fname2")), "below", name)
			o.MkdirAll = true
		}
	default:
		// asking for the parent directories to be made changes nothing about what may be at the path itself
		o.MkdirAll = src.Bool(1, 3, "mkdirall_plain")
	}
	return o
}

// plantObjects leaves adversarial objects at file names Open may be asked for (what an
// earlier program could have left behind).
func plantObjects(c *vcore.Ctx) {
	src := c.Src
	n := src.Int(5, "nplant")
	for i := 0; i < n; i++ {
		dir := filepath.Join(s1Root, src.Pick("plantdir", "w", "tmp", "data"))
		p := filepath.Join(dir, fmt.Sprintf("f%d", src.Int(6, "pname")))
		os.Remove(p)
		kind := src.Pick("plant", "file", "dir", "symlink_file", "symlink_dir", "symlink_fifo", "dangling", "selfloop", "fifo", "socket", "unreadable", "symlink_outside")
		c.Logf("plant %s at %s", kind, strings.TrimPrefix(p, s1Root))
		c.Event("plant:" + kind)
		switch kind {
		case "file":
			os.WriteFile(p, []byte("content"), 0644)
		case "dir":
			os.Mkdir(p, 0755)
		case "symlink_file":
			os.WriteFile(p+".t", []byte("target"), 0644)
			os.Symlink(p+".t", p)
		case "symlink_dir":
			os.Symlink(dir, p)
		case "symlink_fifo":
			syscall.Mkfifo(p+".ff", 0666)
			os.Symlink(p+".ff", p)
		case "dangling":
			os.Symlink(filepath.Join(dir, "nowhere"), p)
		case "selfloop":
			os.Symlink(p, p)
		case "fifo":
			syscall.Mkfifo(p, 0666)
		case "socket":
			fd, err := syscall.Socket(syscall.AF_UNIX, syscall.SOCK_STREAM, 0)
			if err == nil {
				syscall.Bind(fd, &syscall.SockaddrUnix{Name: p})
				syscall.Close(fd)
			}
		case "unreadable":
			os.WriteFile(p, []byte("secret"), 0000)
		case "symlink_outside":
			os.Symlink(filepath.Join(s1Root, "bin", "noexec"), p)
		}
		c.MarkNonTrivial()
	}
}

// genRefused draws an operation whose request or reply cannot be carried by the control socket: larger than
// the frame, more descriptors than one packet can hold, a descriptor number that is not open. All of them are
// failures caused by the request; the transport itself is intact.
func genRefused(c *vcore.Ctx, kind string, used map[int]bool) *s1op {
	src := c.Src
	switch kind {
	case "open":
		op := &s1op{kind: "open"}
		switch src.Pick("refused_open", "oversize_reply", "oversize_request", "too_many_files") {
		case "oversize_reply":
			// short relative names (the serving process works in <root>/w) under a directory that does not exist:
			// the request is small, the per-item error texts of the reply are not
			op.stage = "oversize_reply"
			for i, n := 0, 900+src.Int(300, "nbig"); i < n; i++ {
				op.open = append(op.open, container.OpenCmd{Path: fmt.Sprintf("q/%d", i), Flag: os.O_RDONLY})
			}
		case "oversize_request":
			op.stage = "oversize_request"
			for i, n := 0, 300+src.Int(200, "nbig"); i < n; i++ {
				op.open = append(op.open, container.OpenCmd{Path: filepath.Join(s1Root, "w", strings.Repeat("d", 100), fmt.Sprint(i)), Flag: os.O_RDONLY})
			}
		default:
			// every item succeeds; the reply would carry more descriptors than one packet may
			op.stage = "too_many_files"
			for i, n := 0, 254+src.Int(40, "nbig"); i < n; i++ {
				op.open = append(op.open, container.OpenCmd{Path: fmt.Sprintf("many/%d", i), Flag: os.O_RDWR | os.O_CREATE, Perm: 0644, MkdirAll: true})
			}
		}
		return op
	case "symlink":
		op := &s1op{kind: "symlink", stage: "oversize_reply"}
		for i, n := 0, 900+src.Int(300, "nbig"); i < n; i++ {
			op.links = append(op.links, container.SymbolicLink{LinkPath: fmt.Sprintf("q/l%d", i), Target: "t"})
		}
		return op
	}
	op := genExecve(c, used)
	op.plan, op.syncFail = planRun, false
	op.args = []string{filepath.Join(s1Root, "bin", "prog"), "x"}
	op.env = []string{"PATH=" + filepath.Join(s1Root, "bin")}
	switch src.Pick("refused_execve", "oversize_env", "oversize_args", "closed_descriptor", "too_many_descriptors") {
	case "oversize_env":
		op.stage = "oversize_env"
		op.env = append(op.env, "BIG="+strings.Repeat("e", 33000+src.Int(9000, "nbig")))
	case "oversize_args":
		op.stage = "oversize_args"
		for i := 0; i < 40; i++ {
			op.args = append(op.args, strings.Repeat("a", 1000))
		}
	case "closed_descriptor":
		op.stage, op.badFile = "closed_descriptor", 1+src.Int(3, "badfile_at")
	default:
		op.stage, op.manyFiles = "too_many_descriptors", 254+src.Int(40, "nbig")
	}
	return op
}

func genOp(c *vcore.Ctx, sh *s1Shape, used map[int]bool) *s1op {
	src := c.Src
	k := sh.opMix[src.Int(len(sh.opMix), "op")]
	if sh.bigMsg && src.Bool(1, 3, "refused") {
		c.MarkNonTrivial()
		return genRefused(c, k, used)
	}
	switch k {
	case "ping":
		return &s1op{kind: "ping"}
	case "reset":
		o := &s1op{kind: "reset"}
		if src.Bool(1, 3, "reset_undeletable") {
			// what a program may leave behind: an entry Reset cannot remove (here: inside a read-only
			// directory; in a real container e.g. a busy mount point): Reset fails, as an error of that call
			o.stage = "undeletable"
		}
		return o
	case "delete":
		p := filepath.Join(s1Root, src.Pick("deldir", "w", "tmp", "data"), fmt.Sprintf("f%d", src.Int(6, "dname")))
		if src.Bool(1, 6, "delbad") {
			p = filepath.Join(s1Root, "w", "no", "such", "path")
		}
		return &s1op{kind: "delete", path: p}
	case "symlink":
		n := 1 + src.Int(3, "nlinks")
		if sh.batchHeavy {
			n = 1 + src.Int(10, "nlinks")
		}
		if src.Bool(1, 12, "links_empty") {
			n = 0
		}
		op := &s1op{kind: "symlink"}
		for i := 0; i < n; i++ {
			lp := filepath.Join(s1Root, src.Pick("linkdir", "w", "tmp"), fmt.Sprintf("l%d", src.Int(5, "lname")))
			if src.Bool(1, 5, "linkbad") {
				lp = filepath.Join(s1Root, "w", "missing", "l")
			}
			op.links = append(op.links, container.SymbolicLink{LinkPath: lp, Target: fmt.Sprintf("t%d", i)})
		}
		return op
	case "open":
		return genOpen(c, sh.batchHeavy)
	default:
		return genExecve(c, used)
	}
}

func (o *s1op) String() string {
	switch o.kind {
	case "execve":
		return fmt.Sprintf("Execve(stage=%s code=%d syncAfter=%v files=%d fexecve=%v)", o.stage, o.code, o.syncAfter, o.nfiles, o.fdExec)
	case "open":
		if o.refused() {
			return fmt.Sprintf("Open[%d items: %s]", len(o.open), o.stage)
		}
		var parts []string
		for _, x := range o.open {
			parts = append(parts, fmt.Sprintf("%s:%#x mk=%v", strings.TrimPrefix(x.Path, s1Root), x.Flag, x.MkdirAll))
		}
		return "Open[" + strings.Join(parts, ", ") + "]"
	case "symlink":
		if o.refused() {
			return fmt.Sprintf("Symlink[%d items: %s]", len(o.links), o.stage)
		}
		var parts []string
		for _, x := range o.links {
			parts = append(parts, strings.TrimPrefix(x.LinkPath, s1Root))
		}
		return "Symlink[" + strings.Join(parts, ", ") + "]"
	case "delete":
		return "Delete(" + strings.TrimPrefix(o.path, s1Root) + ")"
	}
	return strings.ToUpper(o.kind[:1]) + o.kind[1:] + "()"
}

// s1Sim runs one history in one bubble and evaluates the oracles of property prop.
type s1Sim struct {
	c             *vcore.Ctx
	sh            *s1Shape
	w             *s1world
	viol          *vcore.Violation
	files         []*os.File
	lockedPlanted bool
	refusedSite   string // first operation of the history whose message the control socket refused
}

// hostGoroutines counts goroutines executing methods of the host-side environment object.
func hostGoroutines() int {
	buf := make([]byte, 1<<20)
	n := runtime.Stack(buf, true)
	cnt := 0
	for _, g := range strings.Split(string(buf[:n]), "\n\n") {
		if strings.Contains(g, "container.(*container).") {
			cnt++
		}
	}
	return cnt
}

func (s *s1Sim) fail(kind, site, f string, a ...any) {
	if s.sh.kinds != nil && !s.sh.kinds[kind] {
		return
	}
	if s.viol == nil {
		s.viol = vcore.Violate(s.sh.prop, kind, site, f, a...)
	}
}

func (o *s1op) site() string {
	if o.kind == "execve" {
		return "execve/" + o.stage
	}
	if o.refused() {
		return o.kind + "/" + o.stage
	}
	return o.kind
}

// refused: the request or its reply does not fit the control socket (genRefused)
func (o *s1op) refused() bool {
	switch o.stage {
	case "oversize_reply", "oversize_request", "too_many_files", "oversize_env", "oversize_args", "closed_descriptor", "too_many_descriptors":
		return true
	}
	return false
}

// call performs the API call of op on the environment (runs in its own goroutine).
func (s *s1Sim) call(ctx context.Context, op *s1op, out *s1res) {
	env := s.w.env
	switch op.kind {
	case "ping":
		out.err = env.Ping()
	case "reset":
		out.err = env.Reset()
	case "delete":
		out.err = env.Delete(op.path)
	case "symlink":
		out.linkErr, out.err = env.Symlink(op.links)
	case "open":
		out.open, out.err = env.Open(op.open)
	case "execve":
		p := container.ExecveParam{Args: op.args, Env: op.env, SyncAfterExec: op.syncAfter}
		for i := 0; i < op.nfiles; i++ {
			p.Files = append(p.Files, s.files[i].Fd())
		}
		for len(p.Files) < op.manyFiles {
			p.Files = append(p.Files, s.files[len(p.Files)%3].Fd())
		}
		if op.badFile > 0 {
			p.Files = append(p.Files[:min(op.badFile-1, len(p.Files))], append([]uintptr{closedFdNumber}, p.Files[min(op.badFile-1, len(p.Files)):]...)...)
		}
		if op.fdExec {
			p.ExecFile = s.files[2].Fd()
		}
		if op.fdCgroup {
			p.CgroupFD = s.files[1].Fd()
		}
		if op.seccomp {
			p.Seccomp = seccomp.Filter{{Code: 0x06, K: 0x7fff0000}} // (return ALLOW; the stub process table does not load it)
		}
		p.SyncFunc = func(pid int) error {
			out.synced = true
			out.syncPid = pid
			if op.syncFail {
				s.c.Fault("sync_callback_error")
				return errors.New("sync refused by caller")
			}
			return nil
		}
		s.w.mu.Lock()
		s.w.procs.plan = op.plan
		s.w.procs.code = op.code
		s.w.mu.Unlock()
		out.res = env.Execve(ctx, p)
	}
}

// closedFdNumber is a descriptor number nothing in a worker ever opens (below the transit ranges)
const closedFdNumber = 1999

// forceFinalizers runs a collection and gives the finalizer goroutine (which lives outside the
// bubble) a few milliseconds of real time; package time is fake in here, the raw clock is not.
func forceFinalizers() {
	runtime.GC()
	runtime.GC()
	var t0, t unix.Timespec
	unix.ClockGettime(unix.CLOCK_MONOTONIC, &t0)
	for {
		runtime.Gosched()
		unix.ClockGettime(unix.CLOCK_MONOTONIC, &t)
		if (t.Sec-t0.Sec)*1e9+(t.Nsec-t0.Nsec) > 3e6 {
			return
		}
	}
}

type s1event struct {
	name   string
	weight int
	run    func()
}

// drive schedules events until the call returns; returns false on deadlock/step overrun.
func (s *s1Sim) drive(op *s1op, done chan struct{}, cancel context.CancelFunc, allowCancel, allowFault, allowDestroy bool, destroyDone *chan struct{}) (ok bool, why string) {
	c, w := s.c, s.w
	cancelled := false
	destroyed := false
	gcDone := op.kind != "open" || !c.Src.Bool(1, 5, "maygc") // (a forced collection costs milliseconds of real time)
	ticks := 0
	w.selSetMode(selControlled)
	defer w.selSetMode(selFree)
	for step := 0; step < 1200; step++ {
		vcore.Heartbeat()
		synctest.Wait()
		select {
		case <-done:
			return true, ""
		default:
		}
		nh, nc, running := w.pending()
		var evs []s1event
		// goroutines of the code under test parked in front of a select: which of them moves, and which of its
		// cases it tries, is the simulator's choice - so several cases can be ready when it finally looks
		if ps, ks := w.selOffers(); len(ps) > 0 {
			for i := range ps {
				p, k := ps[i], ks[i]
				evs = append(evs, s1event{fmt.Sprintf("select:%s:%d", p.site, k), 4, func() { w.selRelease(p, k) }})
			}
		}
		if nh > 0 {
			evs = append(evs, s1event{"deliver:h2c", 6, func() { w.deliver(w.h2c) }})
		}
		if nc > 0 {
			evs = append(evs, s1event{"deliver:c2h", 6, func() { w.deliver(w.c2h) }})
		}
		if nc > 0 && op.kind == "ping" && !w.transportLost {
			// a slow but sufficient container: the reply to Ping arrives 10 ms before Ping's 3 s deadline,
			// and the caller is descheduled for 20 ms on its way out. Ping succeeded: the environment
			// must stay usable.
			evs = append(evs, s1event{"deliver:c2h_just_before_ping_deadline", 2, func() {
				w.mu.Lock()
				dl := w.hostEnd.deadline
				w.mu.Unlock()
				if d := time.Until(dl) - 10*time.Millisecond; !dl.IsZero() && d > 0 {
					c.Fault("ping_reply_just_before_deadline")
					time.Sleep(d)
					s.c.SimTime += d
					w.mu.Lock()
					w.resetLag, w.lagSeq = 20*time.Millisecond, w.hostEnd.entrySeq
					w.mu.Unlock()
				}
				w.deliver(w.c2h)
			}})
		}
		for _, ch := range running {
			ch := ch
			if op.plan != planRunForever {
				evs = append(evs, s1event{"child_exit", 3, func() { w.childExit(ch) }})
			}
		}
		if op.kind == "open" && !gcDone && (nh > 0 || nc > 0) {
			// a garbage collection (with its finalizers) of the process serving the batch, while the
			// batch is being handled: whatever must stay open has to be referenced, not just numbered
			evs = append(evs, s1event{"gc", 2, func() {
				gcDone = true
				c.Fault("gc_with_finalizers_during_batch")
				forceFinalizers()
			}})
		}
		if allowCancel && !cancelled && !destroyed { // (once Destroy is under way it has to end the call without the caller's help)
			evs = append(evs, s1event{"cancel", 1, func() { cancelled = true; c.Fault("cancel"); cancel() }})
		}
		if allowFault && !w.transportLost {
			evs = append(evs, s1event{"close:host", 1, func() { c.Fault("transport_close_host_end"); w.closeEnd(w.hostEnd) }})
			evs = append(evs, s1event{"close:srv", 1, func() { c.Fault("transport_close_container_end"); w.closeEnd(w.srvEnd) }})
		}
		if allowDestroy && !destroyed {
			evs = append(evs, s1event{"destroy", 1, func() {
				destroyed = true
				w.srvQuiet.Store(true)
				c.Fault("destroy_in_flight")
				w.mu.Lock()
				w.transportLost = true
				w.mu.Unlock()
				dd := make(chan struct{})
				*destroyDone = dd
				go func() { defer close(dd); w.env.Destroy() }()
			}})
		}
		if len(evs) == 0 {
			evs = append(evs, s1event{"tick", 1, func() { ticks++; time.Sleep(time.Second); s.c.SimTime += time.Second }})
		} else if op.kind == "ping" && allowFault && !w.transportLost && nh+nc > 0 {
			// (only while the request or the reply is still in flight: once the reply has reached the
			// host, the deadline has done its job and later time must not matter)
			// a container slower than Ping's deadline: the environment is declared dead by the host
			evs = append(evs, s1event{"ping_deadline", 1, func() {
				c.Fault("ping_deadline_expired")
				w.mu.Lock()
				w.transportLost = true
				w.mu.Unlock()
				time.Sleep(4 * time.Second)
				s.c.SimTime += 4 * time.Second
			}})
		}
		if len(evs) == 1 && evs[0].name == "tick" && ticks >= 6 {
			// nothing can happen any more and time does not help
			// (a program that never ends is ended by the caller's cancellation at last - unless Destroy has been called:
			// that alone must bring the call back)
			if op.plan == planRunForever && !cancelled && !destroyed {
				cancelled = true
				cancel()
				continue
			}
			return false, "deadlock: call blocked, no message in flight, no child running, clock advanced 6s"
		}
		total := 0
		for _, e := range evs {
			total += e.weight
		}
		var pick *s1event
		if !s.sh.delays && (nh > 0 || nc > 0) {
			// FIFO-immediate shape: always deliver first
			pick = &evs[0]
			c.Src.Int(1, "sched")
		} else {
			r := c.Src.Int(total, "sched")
			for i := range evs {
				if r < evs[i].weight {
					pick = &evs[i]
					break
				}
				r -= evs[i].weight
			}
			if pick != &evs[0] {
				c.MarkNonTrivial()
			}
		}
		c.Logf("    ev %s", pick.name)
		if pick.name != "tick" {
			c.Event(pick.name)
		}
		if !strings.HasPrefix(pick.name, "select:") {
			w.selOtherEvent()
		}
		pick.run()
		hs, ss := s.stage()
		c.State(op.kind, hs, ss, nh, nc, len(running), cancelled, w.transportLost)
	}
	return false, "step bound exceeded (1200 events) without the call returning"
}

// stage derives an abstract (host stage, server stage) pair from the message log.
func (s *s1Sim) stage() (string, string) {
	s.w.mu.Lock()
	defer s.w.mu.Unlock()
	h, v := "idle", "idle"
	for _, m := range s.w.msgs {
		if m.end == "host" {
			h = m.dir + ":" + m.kind
		} else {
			v = m.dir + ":" + m.kind
		}
	}
	return h, v
}

func s1RunHistory(c *vcore.Ctx, sh *s1Shape) (v *vcore.Violation) {
	s := &s1Sim{c: c, sh: sh}
	var harness any
	func() {
		defer func() {
			if r := recover(); r != nil {
				// end-of-bubble deadlock panic: some goroutine of the torn-down world can never exit
				if !strings.Contains(fmt.Sprint(r), "deadlock") {
					harness = r
					return
				}
				// goroutines of the bubble are still blocked after Destroy and teardown
				if n := hostGoroutines(); n > 0 {
					s.fail("goroutine_leak", "host", "%d goroutine(s) of the host-side environment are still blocked after Destroy returned", n)
				}
				s.c.Probe("bubble_left_blocked_goroutines")
			}
		}()
		synctest.Test(simT, func(t *testing.T) {
			defer func() {
				if r := recover(); r != nil {
					if _, ok := r.(vcore.ErrTooManyDraws); ok {
						return
					}
					buf := make([]byte, 8<<10)
					n := runtime.Stack(buf, false)
					harness = fmt.Sprintf("%v\n%s", r, buf[:n])
				}
			}()
			s.run()
		})
	}()
	if harness != nil {
		vcore.Harnessf("S1: %v", harness)
	}
	return s.viol
}

func (s *s1Sim) run() {
	c, sh := s.c, s.sh
	s1ResetTree()
	if a, b := transitFds(); len(a)+len(b) > 0 {
		for _, fd := range append(a, b...) {
			syscall.Close(fd) // left over from an earlier run that ended in a violation
		}
	}
	for i := 0; i < 3; i++ {
		f, err := os.Open("/dev/null")
		if err != nil {
			vcore.Harnessf("open /dev/null: %v", err)
		}
		s.files = append(s.files, f)
	}
	conf := &container.VServerConf{WorkDir: filepath.Join(s1Root, "w"), Cred: c.Src.Bool(1, 3, "conf_cred"),
		TmpfsTargets: []string{strings.TrimPrefix(filepath.Join(s1Root, "w"), "/"), strings.TrimPrefix(filepath.Join(s1Root, "tmp"), "/")}}
	w, err := newS1World(c, conf)
	if err != nil {
		vcore.Harnessf("S1 world: %v", err)
	}
	s.w = w
	synctest.Wait()

	used := map[int]bool{}
	var ops []*s1op
	for i := 0; i < sh.nOps; i++ {
		ops = append(ops, genOp(c, sh, used))
	}
	// epilogue: the environment must still be usable
	ops = append(ops, &s1op{kind: "ping", stage: "epilogue"}, func() *s1op {
		o := &s1op{kind: "execve", stage: "run", plan: planRun, code: 251, args: []string{filepath.Join(s1Root, "bin", "prog")}, env: nil}
		return o
	}())
	lostAt := -1
	var lastProgramFailure string
	for i, op := range ops {
		if s.viol != nil {
			break
		}
		epilogue := i >= sh.nOps
		if (op.kind == "open" || op.kind == "delete") && !op.refused() {
			plantObjects(c)
		}
		if op.kind == "reset" && op.stage == "undeletable" {
			d := filepath.Join(s1Root, "w", fmt.Sprintf("locked%d", i))
			os.MkdirAll(filepath.Join(d, "inner"), 0777)
			os.Chmod(d, 0555)
			s.lockedPlanted = true
			c.Logf("plant undeletable %s", strings.TrimPrefix(d, s1Root))
			c.Fault("reset_fails_in_container")
		}
		if op.kind == "open" && !op.refused() {
			op.pre = nil
			for _, it := range op.open {
				st := "other"
				if fi, err := os.Lstat(it.Path); err == nil {
					if fi.Mode().IsRegular() && fi.Mode().Perm()&0600 == 0600 {
						st = "regular"
					}
				} else if _, perr := os.Stat(filepath.Dir(it.Path)); perr != nil {
					st = "noparent"
				} else if os.IsNotExist(err) {
					st = "absent"
				}
				op.pre = append(op.pre, st)
			}
		}
		if i > 0 && c.Src.Bool(1, 8, "idle_before") {
			// the caller does nothing for a while: deadlines armed by an earlier call and left behind
			// expire now (simulated time, costs nothing)
			d := []time.Duration{3500 * time.Millisecond, 10 * time.Second, 2 * time.Minute}[c.Src.Int(3, "idle_for")]
			c.Logf("    idle for %v", d)
			c.Event("idle")
			c.Fault("idle_period_between_calls")
			time.Sleep(d)
			s.c.SimTime += d
		}
		c.Logf("op %d: %s", i, op)
		if op.refused() {
			c.Fault("message_refused:" + op.stage)
		}
		synctest.Wait()
		w.mu.Lock()
		stray := len(w.c2h.inflight) + len(w.c2h.delivered)
		w.mu.Unlock()
		if stray != 0 && !w.transportLost {
			culprit := op
			if i > 0 {
				culprit = ops[i-1]
			}
			s.fail("stray_reply", culprit.site(), "%d container->host message(s) pending when %s starts: a reply nobody waited for (left by %s)", stray, op, culprit)
			break
		}
		ctx, cancel := newEndableCtx(sh.cancels && c.Src.Bool(1, 3, "ends_as_deadline"))
		allowCancel := sh.cancels && !epilogue && op.kind == "execve" && c.Src.Bool(1, 2, "maycancel")
		if op.kind == "execve" && op.stage == "run" && allowCancel && c.Src.Bool(1, 3, "forever") {
			op.plan = planRunForever
		}
		allowFault := sh.faultClose && !epilogue && c.Src.Bool(1, 3, "mayfault")
		allowDestroy := sh.destroyMid && !epilogue && i == sh.nOps-1
		wasLost := w.transportLost
		w.mu.Lock()
		w.curOp = i
		w.mu.Unlock()
		if allowCancel && sh.precancel && c.Src.Bool(1, 6, "precancel") {
			c.Fault("cancel_before_call")
			c.Logf("    ev cancel (before the call starts)")
			c.Event("precancel")
			cancel()
		}
		out := &s1res{}
		done := make(chan struct{})
		go func() { defer close(done); s.call(ctx, op, out) }()
		var destroyDone chan struct{}
		ok, why := s.drive(op, done, cancel, allowCancel, allowFault, allowDestroy, &destroyDone)
		cancelledNow := ctx.Err() != nil
		cancel()
		if !ok {
			kind := "hang"
			if w.transportLost {
				kind = "hang_after_transport_loss"
			}
			s.fail(kind, op.site(), "%s did not return: %s", op, why)
			break
		}
		if destroyDone != nil {
			// Destroy must return too
			for k := 0; k < 50; k++ {
				synctest.Wait()
				select {
				case <-destroyDone:
					k = 50
				default:
					time.Sleep(time.Second)
				}
			}
			select {
			case <-destroyDone:
			default:
				s.fail("destroy_hang", op.site(), "Destroy did not return while %s was in flight", op)
			}
		}
		if w.transportLost && lostAt < 0 {
			lostAt = i
		}
		// server must not have died on account of a request/program failure
		synctest.Wait()
		if exited, how := w.serverExited(); exited && !w.transportLost && s.viol == nil {
			w.mu.Lock()
			culprit := ops[w.lastSrvRecvOp]
			w.mu.Unlock()
			s.fail("container_exit", culprit.site(), "container init ended (%s) during %s; the last message it read was sent by %s; the transport was intact", how, op, culprit)
			break
		}
		s.check(i, op, out, wasLost, cancelledNow, epilogue, lastProgramFailure)
		if op.refused() && s.refusedSite == "" {
			s.refusedSite = op.site()
		}
		if (op.kind == "execve" && op.stage != "run" && op.stage != "lookup_in_path") || op.refused() {
			lastProgramFailure = op.site()
		}
		if w.transportLost && epilogue {
			break
		}
	}
	// teardown through the API, then conservation checks
	synctest.Wait()
	if ex, _ := w.serverExited(); ex || w.transportLost {
		w.initKilledEarly = true
	}
	dd := make(chan struct{})
	w.srvQuiet.Store(true)
	go func() { defer close(dd); w.env.Destroy() }()
	for k := 0; k < 20; k++ {
		synctest.Wait()
		select {
		case <-dd:
			k = 20
		default:
			time.Sleep(time.Second)
		}
	}
	select {
	case <-dd:
	default:
		s.fail("destroy_hang", "final", "final Destroy did not return")
	}
	for _, f := range s.files {
		f.Close()
	}
	w.teardown()
	synctest.Wait()
	if s.viol == nil {
		// descriptor conservation, counted on the unique transit numbers: everything the host
		// received has been closed by the host or handed to the caller (who closed it above);
		// everything the container received has been closed by the container
		hostSide, srvSide := transitFds()
		if len(hostSide) > 0 {
			s.fail("fd_leak", "host", "%d descriptor(s) received by the host were neither returned nor closed: %v", len(hostSide), hostSide)
		} else if len(srvSide) > 0 && !w.initKilledEarly {
			s.fail("fd_leak", "container", "%d descriptor(s) received by the container init were never closed: %v", len(srvSide), srvSide)
		}
	}
}

// check evaluates the per-call oracle.
func (s *s1Sim) check(i int, op *s1op, out *s1res, wasLost, cancelled, epilogue bool, lastFail string) {
	w := s.w
	lost := w.transportLost
	site := op.site()
	if epilogue && lastFail != "" {
		site = "after:" + lastFail
	}
	if s.refusedSite != "" && !op.refused() {
		site = "after:" + s.refusedSite // whatever goes wrong from here on is blamed on the refused message first
	}
	closeOpen := func() {
		for _, r := range out.open {
			if r.File != nil {
				r.File.Close()
			}
		}
	}
	defer closeOpen()
	if wasLost {
		// every call after transport loss fails promptly (it returned; now it must be an error)
		switch op.kind {
		case "execve":
			if out.res.Status != runner.StatusRunnerError || out.res.Error == "" {
				s.fail("success_after_transport_loss", op.site(), "%s returned %v after the transport was lost", op, out.res)
			}
		default:
			if out.err == nil {
				s.fail("success_after_transport_loss", op.site(), "%s returned no error after the transport was lost", op)
			}
		}
		return
	}
	if lost {
		// the fault hit this call: it may fail, or succeed with its own data; never another call's data
		if op.kind == "execve" && out.res.Status != runner.StatusRunnerError {
			s.checkExecResult(op, out, site, cancelled)
		}
		return
	}
	switch op.kind {
	case "ping", "reset":
		if op.kind == "reset" && s.lockedPlanted && op.stage != "undeletable" {
			return // an entry planted earlier in this history is still undeletable: either outcome is this call's own
		}
		if op.stage == "undeletable" {
			if out.err == nil {
				s.fail("wrong_answer", "reset/undeletable", "Reset reported success although an entry could not be removed")
			}
			return
		}
		if out.err != nil {
			s.fail("unexpected_error", site, "%s failed: %v", op, out.err)
		}
	case "delete":
		// outcome depends on the tree; only alignment with reality is checked
		_, statErr := os.Lstat(op.path)
		if out.err == nil && statErr == nil {
			s.fail("delete_lied", site, "Delete(%s) reported success but the path still exists", op.path)
		}
	case "symlink":
		if len(op.links) == 0 {
			return
		}
		if op.refused() && out.err != nil {
			return // an error of this call: what the statement asks for; the environment must stay usable (epilogue)
		}
		if out.err != nil {
			s.fail("unexpected_error", site, "%s failed as a whole: %v", op, out.err)
			return
		}
		if len(out.linkErr) != len(op.links) {
			s.fail("misaligned", site, "Symlink returned %d results for %d items", len(out.linkErr), len(op.links))
			return
		}
		for k, l := range op.links {
			tgt, rerr := os.Readlink(l.LinkPath)
			made := rerr == nil && tgt == l.Target
			if out.linkErr[k] == nil && !made {
				s.fail("misaligned", site, "Symlink item %d (%s) reported success but link target is %q (%v)", k, l.LinkPath, tgt, rerr)
			}
		}
	case "open":
		s.checkOpen(op, out, site)
	case "execve":
		s.checkExecResult(op, out, site, cancelled)
	}
}

func (s *s1Sim) checkExecResult(op *s1op, out *s1res, site string, cancelled bool) {
	r := out.res
	expectFail := op.stage != "run" && op.stage != "lookup_in_path"
	if (op.stage == "oversize_env" || op.stage == "oversize_args") && r.Status != runner.StatusRunnerError {
		expectFail = false // an implementation that can carry the request after all: then it is an ordinary run
	}
	if expectFail {
		if r.Status != runner.StatusRunnerError || r.Error == "" {
			s.fail("wrong_answer", site, "%s must be reported as an error of the call, got %v", op, r)
		}
		return
	}
	// find the stub child of this call by its unique code
	var ch *s1child
	s.w.mu.Lock()
	for _, x := range s.w.procs.children {
		if x.code == op.code {
			ch = x
		}
	}
	s.w.mu.Unlock()
	if ch == nil {
		if r.Status != runner.StatusRunnerError {
			s.fail("wrong_answer", site, "%s: no child was started but the result is %v", op, r)
		} else {
			s.fail("unexpected_error", site, "%s failed: %v", op, r.Error)
		}
		return
	}
	if !op.syncAfter && (!out.synced || out.syncPid != ch.pid) {
		s.fail("sync_pid", site, "%s: callback synced=%v pid=%d, child pid=%d", op, out.synced, out.syncPid, ch.pid)
	}
	switch ch.state {
	case stExited:
		want := runner.StatusNormal
		if ch.code != 0 {
			want = runner.StatusNonzeroExitStatus
		}
		if r.Status != want || r.ExitStatus != ch.code {
			s.fail("wrong_answer", site, "%s: child exited with %d but the call returned %v (exit %d, %q)", op, ch.code, r.Status, r.ExitStatus, r.Error)
		}
	case stKilled:
		if !cancelled {
			s.fail("spurious_kill", site, "%s: child was killed although nobody cancelled; result %v", op, r)
			return
		}
		if r.Status != runner.StatusTimeLimitExceeded {
			s.fail("cancel_verdict", site, "%s cancelled while running must be Time Limit Exceeded, got %v (%q)", op, r.Status, r.Error)
		}
	default:
		s.fail("child_left_running", site, "%s returned %v while its program is still running", op, r)
	}
	if !ch.reaped {
		s.fail("child_not_reaped", site, "%s returned but its program was not waited for", op)
	}
}

func (s *s1Sim) checkOpen(op *s1op, out *s1res, site string) {
	if len(op.open) == 0 {
		return
	}
	if op.refused() && out.err != nil {
		return // an error of this call: what the statement asks for; the environment must stay usable (epilogue)
	}
	if out.err != nil {
		s.fail("unexpected_error", site, "%s failed as a whole: %v", op, out.err)
		return
	}
	if len(out.open) != len(op.open) {
		s.fail("misaligned", site, "Open returned %d results for %d items", len(out.open), len(op.open))
		return
	}
	seen := map[string]int{}
	for _, req := range op.open {
		seen[req.Path]++
	}
	for k, req := range op.open {
		r := out.open[k]
		if r.Err != nil && r.File == nil && seen[req.Path] == 1 && len(op.pre) == len(op.open) {
			// items that must succeed whatever their neighbours do
			acc := req.Flag & syscall.O_ACCMODE
			mustOK := (op.pre[k] == "regular" && req.Flag&os.O_EXCL == 0) ||
				(op.pre[k] == "absent" && req.Flag&os.O_CREATE != 0 && len(filepath.Base(req.Path)) < 200)
			_ = acc
			for _, other := range op.open {
				if other.MkdirAll && strings.HasPrefix(other.Path, req.Path+"/") {
					mustOK = false // another item of the batch asks for a directory to be made at this very name
				}
			}
			if mustOK {
				s.fail("spurious_item_failure", "open", "Open item %d (%s, flags %#x, before the call: %s) failed: %v", k, req.Path, req.Flag, op.pre[k], r.Err)
				return
			}
		}
		if (r.File == nil) == (r.Err == nil) {
			s.fail("misaligned", site, "Open item %d (%s): file=%v err=%v (exactly one must be set)", k, req.Path, r.File != nil, r.Err)
			return
		}
		if r.File == nil {
			continue
		}
		var fst, pst syscall.Stat_t
		if err := syscall.Fstat(int(r.File.Fd()), &fst); err != nil {
			s.fail("bad_descriptor", site, "Open item %d (%s): fstat: %v", k, req.Path, err)
			return
		}
		if fst.Mode&syscall.S_IFMT != syscall.S_IFREG {
			s.fail("non_regular", "open", "Open item %d (%s) handed back a descriptor of type %#o", k, req.Path, fst.Mode&syscall.S_IFMT)
			return
		}
		if err := syscall.Lstat(req.Path, &pst); err != nil {
			// a later item may not remove it; nothing in Open removes files
			s.fail("misaligned", site, "Open item %d (%s): path missing afterwards: %v", k, req.Path, err)
			return
		}
		if pst.Ino != fst.Ino || pst.Dev != fst.Dev {
			s.fail("misaligned", "open", "Open item %d: descriptor is inode %d but %s is inode %d (symlink followed or results shifted)", k, fst.Ino, req.Path, pst.Ino)
			return
		}
		fl, _ := fcntlGetfl(int(r.File.Fd()))
		if fl&syscall.O_ACCMODE != req.Flag&syscall.O_ACCMODE {
			s.fail("wrong_mode", "open", "Open item %d (%s): access mode %#x, requested %#x", k, req.Path, fl&syscall.O_ACCMODE, req.Flag&syscall.O_ACCMODE)
			return
		}
		fd, _ := fcntlGetfd(int(r.File.Fd()))
		if fd&syscall.FD_CLOEXEC == 0 {
			s.fail("not_cloexec", "open", "Open item %d (%s): descriptor is not close-on-exec", k, req.Path)
			return
		}
	}
}

func fcntlGetfl(fd int) (int, error) {
	r, _, e := syscall.Syscall(syscall.SYS_FCNTL, uintptr(fd), syscall.F_GETFL, 0)
	if e != 0 {
		return 0, e
	}
	return int(r), nil
}

func fcntlGetfd(fd int) (int, error) {
	r, _, e := syscall.Syscall(syscall.SYS_FCNTL, uintptr(fd), syscall.F_GETFD, 0)
	if e != 0 {
		return 0, e
	}
	return int(r), nil
}
