//go:build verif && !verifs2

package sim

import (
	"context"
	"fmt"
	"os"
	"path/filepath"
	"strings"
	"syscall"
	"time"

	"github.com/criyle/go-sandbox/ptracer"
	"github.com/criyle/go-sandbox/runner"
	"github.com/criyle/go-sandbox/zverif/vcore"
	"golang.org/x/sys/unix"
)

// C02: the path given to the policy is the object the kernel will really touch.
// The kernel is the reference model: while the tracee is stopped inside the very call, the
// harness resolves the same (dirfd, pathname) through the tracee's own view with O_PATH opens.

type c02expect struct {
	class  string // read write stat
	strict bool   // class must match exactly (false: "write" is also accepted where "read" is expected)
	dfd    uint64
	useDfd bool
	path   string
	follow bool
	what   string
	// the flag word cannot be known to anybody (unreadable open_how: the kernel itself refuses the call
	// with EFAULT): whether a final link would be followed is undefined, only the access class is judged
	followUnknown bool
}

type c02forest struct {
	root   string
	dirs   []string // relative names of directories
	all    []string // every name usable as a path component
	nlinks int
	cwd    string // the tracee's current working directory, relative to root (follows chdir/fchdir)
}

func buildForest(c *vcore.Ctx, root string) *c02forest {
	src := c.Src
	f := &c02forest{root: root}
	for _, d := range []string{"a", "a/b", "c", "c/d"} {
		os.MkdirAll(filepath.Join(root, d), 0755)
	}
	f.dirs = []string{".", "a", "a/b", "c", "c/d"}
	for _, fl := range []string{"a/f1", "a/b/f2", "c/f3", "f0"} {
		os.WriteFile(filepath.Join(root, fl), []byte("x"), 0644)
	}
	targets := []string{"../c", "../a/b", "b", "f1", "../f0", "..", "../..", root + "/c/d", root + "/a", root + "/a/b/f2", "nowhere", "../a/l0", "../c/l1", "l2", "/", "b/../../c", ".",
		// targets whose text passes through another link and then "..": ".." applies to where that link leads
		"l0/..", "l1/../f0", "l0/../f1", "../a/l0/../f3", "../c/l1/..", "l2/../b", "../l0/../c", "l1/../../a/f1", "l3/../l0",
		// targets that go through the calling program's own /proc entries (the shape of /dev/stdin, /dev/fd):
		// "self" is the program that makes the call, not whoever inspects it
		"/proc/self/cwd", "/proc/self/cwd/f0", "/proc/thread-self/cwd", "/proc/self/cwd/../a", "/proc/self/root" + root + "/c"}
	n := 2 + src.Int(5, "nlinks")
	f.nlinks = n
	var desc []string
	for i := 0; i < n; i++ {
		dir := f.dirs[src.Int(len(f.dirs), "linkdir")]
		name := fmt.Sprintf("l%d", i)
		tgt := targets[src.Int(len(targets), "linktarget")]
		if src.Bool(1, 10, "selfloop") {
			tgt = name
		}
		os.Symlink(tgt, filepath.Join(root, dir, name))
		desc = append(desc, fmt.Sprintf("%s/%s->%s", dir, name, strings.ReplaceAll(tgt, root, "$R")))
		f.all = append(f.all, name)
	}
	if src.Bool(1, 2, "link_pair") {
		// a directory link and, next to it, a link whose target text goes through it and then "..":
		// the kernel applies ".." to where the first link leads
		dir := f.dirs[src.Int(len(f.dirs), "pairdir")]
		to := []string{root + "/c/d", root + "/a/b", "../c/d", "../a/b", root + "/a"}[src.Int(5, "pairto")]
		via, name := fmt.Sprintf("l%d", n), fmt.Sprintf("l%d", n+1)
		os.Symlink(to, filepath.Join(root, dir, via))
		tgt := via + "/../" + []string{"f0", "f1", "f2", "f3", "d", "b", "new"}[src.Int(7, "pairleaf")]
		os.Symlink(tgt, filepath.Join(root, dir, name))
		desc = append(desc, fmt.Sprintf("%s/%s->%s", dir, via, strings.ReplaceAll(to, root, "$R")), fmt.Sprintf("%s/%s->%s", dir, name, tgt))
		f.all = append(f.all, via, name, name)
		f.nlinks = n + 2
	}
	f.all = append(f.all, "a", "b", "c", "d", "f0", "f1", "f2", "f3", "new", ".", "..", "..", ".")
	c.Logf("forest: dirs a a/b c c/d, files f0 a/f1 a/b/f2 c/f3, links %v", desc)
	return f
}

// walkPath builds a path the kernel can resolve, by walking the real forest from base (relative
// to root; "" = an absolute path from root): at every step one entry of the directory reached so
// far (or "." / "..") is taken, links are followed as the kernel would, and the walk ends at the
// first non-directory. Random strings mostly fail with ENOENT/ENOTDIR and fall outside the
// property's quantifier; these do not.
func (f *c02forest) walkPath(c *vcore.Ctx, base string) string {
	src := c.Src
	cur := filepath.Join(f.root, base)
	n := 1 + src.Int(5, "wsteps")
	var parts []string
	inDir := true
	for i := 0; i < n; i++ {
		names := []string{".", ".."}
		if ents, err := os.ReadDir(cur); err == nil {
			for _, e := range ents {
				names = append(names, e.Name())
				if e.Type()&os.ModeSymlink != 0 {
					names = append(names, e.Name()) // links twice: they are what the property is about
				}
			}
		}
		name := names[src.Int(len(names), "wname")]
		parts = append(parts, name)
		inDir = false
		next, err := filepath.EvalSymlinks(filepath.Join(cur, name))
		if err != nil {
			break // dangling or looping link: ends the walk
		}
		fi, err := os.Stat(next)
		if err != nil || !fi.IsDir() {
			break
		}
		cur, inDir = next, true
	}
	if src.Bool(1, 8, "wnew") && inDir {
		parts = append(parts, "new") // a name that does not exist yet below the directory reached (creation)
	}
	sep := "/"
	if src.Bool(1, 8, "wdslash") {
		sep = "//"
	}
	p := strings.Join(parts, sep)
	if base == "" {
		return f.root + "/" + p
	}
	if src.Bool(1, 4, "wdot") {
		p = "./" + p
	}
	return p
}

// genPath draws a path string; base is the directory (relative to root) that relative paths of
// this call start from.
func (f *c02forest) genPath(c *vcore.Ctx, base string) string {
	src := c.Src
	switch src.Int(4, "pathgen") {
	case 0:
		return f.walkPath(c, base)
	case 1:
		p := f.walkPath(c, "")
		if src.Bool(1, 5, "via_proc_self") {
			// the same object through the program's own /proc/self links, in several spellings: they denote
			// the *program's* root and working directory, not the tracer's
			pre := src.Pick("proc_self_spelling", "/proc/self/root", "/proc//self/root", "//proc/self/root", "/proc/self//root", "/proc/thread-self/root", "/proc/self/root/")
			c.Event("via_proc_self_root")
			return pre + p
		}
		return p
	case 2:
		if src.Bool(1, 4, "via_proc_self_cwd") {
			pre := src.Pick("proc_cwd_spelling", "/proc/self/cwd/", "/proc//self/cwd/", "//proc/self/cwd/", "/proc/self//cwd/", "/proc/self/cwd//")
			c.Event("via_proc_self_cwd")
			return pre + strings.TrimPrefix(f.walkPath(c, f.cwd), "./")
		}
	}
	n := 1 + src.Int(5, "ncomp")
	var parts []string
	for i := 0; i < n; i++ {
		parts = append(parts, f.all[src.Int(len(f.all), "comp")])
	}
	if src.Bool(1, 3, "lastlink") {
		// bias: the last component is one of the links (where follow / no-follow matters)
		parts[n-1] = fmt.Sprintf("l%d", src.Int(f.nlinks, "lastlinkname"))
	}
	sep := "/"
	if src.Bool(1, 6, "dslash") {
		sep = "//"
	}
	p := strings.Join(parts, sep)
	switch src.Int(8, "pathform") {
	case 0, 1:
		p = f.root + "/" + p // absolute
	case 2:
		p = f.root + "//" + f.dirs[src.Int(len(f.dirs), "absdir")] + "/./" + p
	case 3:
		p = "./" + p
	}
	if src.Bool(1, 10, "trailslash") {
		p += "/"
	}
	return p
}

// kernelResolve asks the kernel where (dirfd, path) leads, through the stopped tracee's view.
func kernelResolve(pid int, dfd uint64, path string, follow bool) (string, bool) {
	if path == "" {
		return "", false
	}
	// Links of the forest may lead through /proc/self/cwd: the kernel follows them for whoever makes the call.
	// For the duration of its own look-up the harness therefore stands where the stopped program stands (one
	// run at a time per worker process; the library under test has long finished its own resolution).
	if old, err := unix.Open(".", unix.O_PATH|unix.O_CLOEXEC, 0); err == nil {
		defer unix.Close(old) // (runs after the Fchdir back)
		if cw, err := unix.Open(fmt.Sprintf("/proc/%d/cwd", pid), unix.O_PATH|unix.O_CLOEXEC, 0); err == nil {
			if unix.Fchdir(cw) == nil {
				defer unix.Fchdir(old)
			}
			unix.Close(cw)
		}
	}
	full := path
	if strings.HasPrefix(path, "/") {
		// /proc/self and /proc/thread-self mean the calling program: translate them to the tracee for the
		// harness's own O_PATH opens (the kernel collapses repeated slashes first)
		q := path
		for strings.Contains(q, "//") {
			q = strings.ReplaceAll(q, "//", "/")
		}
		for _, m := range [][2]string{{"/proc/thread-self", fmt.Sprintf("/proc/%d/task/%d", pid, pid)}, {"/proc/self", fmt.Sprintf("/proc/%d", pid)}} {
			if q == m[0] || strings.HasPrefix(q, m[0]+"/") {
				full = m[1] + q[len(m[0]):]
				break
			}
		}
	}
	if !strings.HasPrefix(path, "/") {
		d := int32(uint32(dfd))
		if d == unix.AT_FDCWD {
			full = fmt.Sprintf("/proc/%d/cwd/%s", pid, path)
		} else {
			if d < 0 {
				return "", false
			}
			fi, err := os.Stat(fmt.Sprintf("/proc/%d/fd/%d", pid, d))
			if err != nil || !fi.IsDir() {
				return "", false
			}
			full = fmt.Sprintf("/proc/%d/fd/%d/%s", pid, d, path)
		}
	}
	res := func(p string, fl int) (string, error) {
		fd, err := unix.Open(p, unix.O_PATH|unix.O_CLOEXEC|fl, 0)
		if err != nil {
			return "", err
		}
		defer unix.Close(fd)
		return os.Readlink(fmt.Sprintf("/proc/self/fd/%d", fd))
	}
	fl := 0
	if !follow {
		fl = unix.O_NOFOLLOW
	}
	if s, err := res(full, fl); err == nil {
		return s, true
	} else if err != unix.ENOENT {
		return "", false
	}
	// the last component does not exist: the parent is resolved and the name appended
	trim := strings.TrimRight(full, "/")
	i := strings.LastIndex(trim, "/")
	if i < 0 {
		return "", false
	}
	name := trim[i+1:]
	if name == "." || name == ".." || name == "" {
		return "", false
	}
	var st unix.Stat_t
	if unix.Lstat(trim, &st) == nil {
		return "", false // exists as a dangling symlink that would be followed: not decided here
	}
	parent, err := res(trim[:i+1], unix.O_DIRECTORY)
	if err != nil {
		return "", false
	}
	if parent == "/" {
		return "/" + name, true
	}
	return parent + "/" + name, true
}

type c02sys struct {
	name   string
	nr     int
	args   [6]string
	expect []c02expect
}

func c02Run(c *vcore.Ctx) *vcore.Violation {
	const prop = "C02"
	src := c.Src
	root, err := os.MkdirTemp(kDir, "c02")
	if err != nil {
		vcore.Harnessf("mkdtemp: %v", err)
	}
	defer os.RemoveAll(root)
	if r, err := filepath.EvalSymlinks(root); err == nil {
		root = r
	}
	f := buildForest(c, root)
	cwdRel := f.dirs[src.Int(len(f.dirs), "cwd")]
	f.cwd = cwdRel
	cwd := filepath.Join(root, cwdRel)
	// two directory descriptors of the tracee (3 and 4), opened by the harness
	d3rel, d4rel := f.dirs[src.Int(len(f.dirs), "fd3")], f.dirs[src.Int(len(f.dirs), "fd4")]
	d3, _ := os.Open(filepath.Join(root, d3rel))
	d4, _ := os.Open(filepath.Join(root, d4rel))
	defer d3.Close()
	defer d4.Close()
	c.Logf("cwd=%s fd3=%s fd4=%s", cwdRel, d3rel, d4rel)

	dfdEnc := func() (string, uint64) {
		switch src.Int(9, "dfdenc") {
		case 0, 1:
			return "-100", 0xffffffffffffff9c
		case 2:
			return "4294967196", 0x00000000ffffff9c // AT_FDCWD zero-extended to 64 bits
		case 3:
			return "3", 3
		case 4:
			return "4", 4
		case 5:
			return "0xdeadbeef00000003", 0xdeadbeef00000003 // garbage in the upper half: the kernel takes an int
		case 6:
			return "0x7fffffff00000004", 0x7fffffff00000004
		case 7:
			// a descriptor that is not open: with an absolute name the kernel never looks at it
			k := src.Int(3, "dead_dfd")
			return []string{"-1", "9999", "77"}[k], []uint64{0xffffffffffffffff, 9999, 77}[k]
		}
		return "0xabcdef01ffffff9c", 0xabcdef01ffffff9c
	}
	openClass := func(flags uint64) (string, bool) {
		if flags&uint64(syscall.O_ACCMODE) != syscall.O_RDONLY || flags&uint64(syscall.O_CREAT|syscall.O_TRUNC) != 0 {
			return "write", true
		}
		return "read", false
	}
	openFollow := func(flags uint64) bool {
		if flags&uint64(syscall.O_NOFOLLOW) != 0 {
			return false
		}
		if flags&uint64(syscall.O_CREAT) != 0 && flags&uint64(syscall.O_EXCL) != 0 {
			return false
		}
		return true
	}
	flagWords := []uint64{0, 0, uint64(syscall.O_WRONLY), uint64(syscall.O_RDWR), uint64(syscall.O_CREAT), uint64(syscall.O_CREAT | syscall.O_EXCL), uint64(syscall.O_TRUNC),
		uint64(syscall.O_RDWR | syscall.O_APPEND), unix.O_PATH, uint64(syscall.O_NOFOLLOW), uint64(syscall.O_DIRECTORY), uint64(syscall.O_WRONLY | syscall.O_CREAT | syscall.O_TRUNC), uint64(syscall.O_CLOEXEC | syscall.O_NONBLOCK)}

	baseOf := func(v uint64) string {
		switch int32(uint32(v)) {
		case 3:
			return d3rel
		case 4:
			return d4rel
		}
		return cwdRel
	}
	// dirfd draws are made before the path, so that the path generator knows where a relative
	// path starts; pending* hold them for the call being generated
	gen := func() *c02sys {
		kind := src.Pick("sys", "open", "openat", "openat2", "stat", "lstat", "newfstatat", "statx", "access", "faccessat", "faccessat2", "readlink", "readlinkat",
			"unlink", "unlinkat", "rename", "renameat", "renameat2", "linkat", "symlinkat", "mkdirat", "mknodat", "chmod", "fchmodat", "execve", "execveat", "openat", "open", "newfstatat",
			"statx", "statx", "faccessat2", "execveat") // (the calls that carry their follow/no-follow choice in a flag register of their own get more weight)
		s := &c02sys{name: kind, args: [6]string{"0", "0", "0", "0", "0", "0"}}
		atKind := strings.HasSuffix(kind, "at") || strings.HasSuffix(kind, "at2") || kind == "statx"
		enc, v := "-100", uint64(0xffffffffffffff9c)
		if atKind {
			enc, v = dfdEnc()
		}
		p := f.genPath(c, baseOf(v))
		P := "s:" + p
		if len(p) >= 2 && src.Bool(1, 4, "crosses_page") {
			// where the string lies in the program's memory is the program's choice: here its first k bytes
			// end one page and the rest begins the next
			P = fmt.Sprintf("c:%d:%s", 1+src.Int(len(p)-1, "page_split"), p)
			c.Event("path_crosses_page")
		}
		one := func(class string, strict bool, useDfd bool, dfd uint64, follow bool) {
			s.expect = append(s.expect, c02expect{class: class, strict: strict, dfd: dfd, useDfd: useDfd, path: p, follow: follow, what: kind})
		}
		atFlag := func(nofollowBit uint64) (string, bool) {
			if src.Bool(1, 2, "atnofollow") {
				return fmt.Sprint(nofollowBit), false
			}
			return "0", true
		}
		switch kind {
		case "open":
			fl := flagWords[src.Int(len(flagWords), "flags")]
			s.nr, s.args[0], s.args[1] = 2, P, fmt.Sprint(fl)
			cl, strict := openClass(fl)
			one(cl, strict, false, 0, openFollow(fl))
		case "openat":
			fl := flagWords[src.Int(len(flagWords), "flags")]
			s.nr, s.args[0], s.args[1], s.args[2] = 257, enc, P, fmt.Sprint(fl)
			cl, strict := openClass(fl)
			one(cl, strict, true, v, openFollow(fl))
		case "openat2":
			fl := flagWords[src.Int(len(flagWords), "flags")]
			how := "h:" + fmt.Sprint(fl)
			cl, strict := openClass(fl)
			badhow := src.Bool(1, 6, "badhow")
			if badhow {
				how, cl, strict = "k", "write", true // open_how cannot be read: classified as a write
			}
			s.nr, s.args[0], s.args[1], s.args[2], s.args[3] = 437, enc, P, how, "24"
			one(cl, strict, true, v, openFollow(fl))
			s.expect[len(s.expect)-1].followUnknown = badhow
		case "stat":
			s.nr, s.args[0], s.args[1] = 4, P, "buf"
			one("stat", true, false, 0, true)
		case "lstat":
			s.nr, s.args[0], s.args[1] = 6, P, "buf"
			one("stat", true, false, 0, false)
		case "newfstatat":
			fl, follow := atFlag(0x100)
			s.nr, s.args[0], s.args[1], s.args[2], s.args[3] = 262, enc, P, "buf", fl
			one("stat", true, true, v, follow)
		case "statx":
			fl, follow := atFlag(0x100)
			// the field mask is another register: STATX_INO (0x100) has the value of AT_SYMLINK_NOFOLLOW
			mask := src.Pick("statx_mask", "0x7ff", "0x6ff", "0", "0xfff", "0x100")
			s.nr, s.args[0], s.args[1], s.args[2], s.args[3], s.args[4] = 332, enc, P, fl, mask, "buf"
			one("stat", true, true, v, follow)
		case "access":
			s.nr, s.args[0], s.args[1] = 21, P, "4"
			one("stat", true, false, 0, true)
		case "faccessat":
			s.nr, s.args[0], s.args[1], s.args[2] = 269, enc, P, "4"
			one("stat", true, true, v, true)
		case "faccessat2":
			fl, follow := atFlag(0x100)
			s.nr, s.args[0], s.args[1], s.args[2], s.args[3] = 439, enc, P, "4", fl
			one("stat", true, true, v, follow)
		case "readlink":
			s.nr, s.args[0], s.args[1], s.args[2] = 89, P, "buf", "4096"
			one("read", true, false, 0, false)
		case "readlinkat":
			s.nr, s.args[0], s.args[1], s.args[2], s.args[3] = 267, enc, P, "buf", "4096"
			one("read", true, true, v, false)
		case "unlink":
			s.nr, s.args[0] = 87, P
			one("write", true, false, 0, false)
		case "unlinkat":
			s.nr, s.args[0], s.args[1] = 263, enc, P
			one("write", true, true, v, false)
		case "rename":
			p2 := f.genPath(c, cwdRel)
			s.nr, s.args[0], s.args[1] = 82, P, "s:"+p2
			one("write", true, false, 0, false)
			s.expect = append(s.expect, c02expect{class: "write", strict: true, path: p2, what: kind + "(new)"})
		case "renameat", "renameat2":
			enc2, v2 := dfdEnc()
			p2 := f.genPath(c, baseOf(v2))
			s.nr = 264
			if kind == "renameat2" {
				s.nr = 316
			}
			s.args[0], s.args[1], s.args[2], s.args[3] = enc, P, enc2, "s:"+p2
			one("write", true, true, v, false)
			s.expect = append(s.expect, c02expect{class: "write", strict: true, useDfd: true, dfd: v2, path: p2, what: kind + "(new)"})
		case "linkat":
			enc2, v2 := dfdEnc()
			p2 := f.genPath(c, baseOf(v2))
			fl, follow := "0", false
			if src.Bool(1, 2, "linkfollow") {
				fl, follow = "0x400", true
			}
			s.nr, s.args[0], s.args[1], s.args[2], s.args[3], s.args[4] = 265, enc, P, enc2, "s:"+p2, fl
			one("write", true, true, v, follow)
			s.expect = append(s.expect, c02expect{class: "write", strict: true, useDfd: true, dfd: v2, path: p2, what: kind + "(new)"})
		case "symlinkat":
			s.nr, s.args[0], s.args[1], s.args[2] = 266, "s:some-target", enc, P
			one("write", true, true, v, false)
		case "mkdirat":
			s.nr, s.args[0], s.args[1], s.args[2] = 258, enc, P, "0755"
			one("write", true, true, v, false)
		case "mknodat":
			s.nr, s.args[0], s.args[1], s.args[2] = 259, enc, P, "0100644"
			one("write", true, true, v, false)
		case "chmod":
			s.nr, s.args[0], s.args[1] = 90, P, "0644"
			one("write", true, false, 0, true)
		case "fchmodat":
			s.nr, s.args[0], s.args[1], s.args[2] = 268, enc, P, "0644"
			one("write", true, true, v, true)
		case "execve":
			s.nr, s.args[0] = 59, P
			one("read", true, false, 0, true)
		case "execveat":
			fl, follow := atFlag(0x100)
			s.nr, s.args[0], s.args[1], s.args[4] = 322, enc, P, fl
			one("read", true, true, v, follow)
		}
		return s
	}
	var calls []*c02sys
	var script []string
	var expects []c02expect
	ncalls := 3 + src.Int(12, "ncalls") // (a traced call is cheap next to the launch: many per run)
	for i := 0; i < ncalls; i++ {
		if i > 0 && src.Bool(1, 4, "chdir_between") {
			// the program changes its working directory between two calls, by path or through one of its
			// directory descriptors; chdir/fchdir are not path calls the policy is consulted about (the
			// filter lets them through untraced), so only the kernel knows
			if src.Bool(1, 2, "byfd") {
				fd := 3 + src.Int(2, "chfd")
				script = append(script, "sys", "81", fmt.Sprint(fd), "0", "0", "0", "0", "0")
				cwdRel = []string{d3rel, d4rel}[fd-3]
				f.cwd = cwdRel
			} else {
				cwdRel = f.dirs[src.Int(len(f.dirs), "chdir_to")]
				f.cwd = cwdRel
				script = append(script, "sys", "80", "s:"+filepath.Join(root, cwdRel), "0", "0", "0", "0", "0")
			}
			c.Event("chdir")
			c.Logf("chdir -> %s", cwdRel)
		}
		s := gen()
		calls = append(calls, s)
		script = append(script, "sys", fmt.Sprint(s.nr))
		script = append(script, s.args[:]...)
		expects = append(expects, s.expect...)
		c.Event(s.name)
		c.Logf("call %d: %s(%s)", i, s.name, strings.ReplaceAll(strings.Join(s.args[:], ", "), root, "$R"))
	}
	script = append(script, "exit", "0")
	c.MarkNonTrivial()

	var viol *vcore.Violation
	tpid := 0
	h := &recHandler{decide: func(kind, arg string, n int) ptracer.TraceAction { return ptracer.TraceBan }}
	h.onCall = func(kind, arg string, n int) {
		vcore.Heartbeat()
		if viol != nil || tpid == 0 {
			return
		}
		if n >= len(expects) {
			viol = vcore.Violate(prop, "extra_consultation", kind, "policy consulted %d times, %d expected; extra: %s(%q)", n+1, len(expects), kind, arg)
			return
		}
		e := expects[n]
		if !e.useDfd {
			e.dfd = 0xffffffffffffff9c
		}
		want, ok := kernelResolve(tpid, e.dfd, e.path, e.follow)
		if e.followUnknown {
			// either reading of the final link is acceptable; if one of them does not resolve, nothing is decided
			w2, ok2 := kernelResolve(tpid, e.dfd, e.path, !e.follow)
			if !ok || !ok2 {
				ok = false
			} else if arg == w2 {
				want = w2
			}
		}
		shown := strings.ReplaceAll(e.path, root, "$R")
		if !ok {
			c.Probe("kernel_resolution_failed")
			return // outside the quantifier (the kernel call itself fails); everything is banned anyway
		}
		c.Probe("resolved_by_kernel")
		if kind == "syscall" && arg == "procfs-path" {
			return // explicit fail-closed policy for procfs object references
		}
		site := e.what
		feat := pathFeatures(e, root)
		if arg != want {
			_ = site
			viol = vcore.Violate(prop, "wrong_object", feat, "%s dirfd=%#x path=%q (follow=%v): policy was asked about %q, the kernel resolves to %q",
				e.what, e.dfd, shown, e.follow, strings.ReplaceAll(arg, root, "$R"), strings.ReplaceAll(want, root, "$R"))
			return
		}
		if kind != e.class && !(kind == "write" && !e.strict) {
			viol = vcore.Violate(prop, "wrong_class", site, "%s path=%q: policy was asked for %s access, the call needs %s", e.what, shown, kind, e.class)
		}
	}
	var res runner.Result
	ok := watchdog(60*time.Second, func() {
		res, _ = kRunPtrace(context.Background(), &kOpts{script: script, filter: kFilterAllowAllBut(pathTraceNames(), nil), handler: h, workdir: cwd,
			extra: []*os.File{d3, d4}, syncFunc: func(pid int) error { tpid = pid; return nil }})
	})
	if !ok {
		return vcore.Violate(prop, "hang", "run", "run did not return")
	}
	if viol != nil {
		return viol
	}
	if res.Status == runner.StatusRunnerError {
		return vcore.Violate(prop, "runner_error", shrinkSite(res.Error), "runner error: %s", res.Error)
	}
	if n := len(h.Calls()); n < len(expects) && res.Status == runner.StatusNormal {
		return vcore.Violate(prop, "missing_consultation", calls[0].name, "the program made %d path calls needing %d consultations, the policy was asked %d times", len(calls), len(expects), n)
	}
	return nil
}

// pathFeatures guesses the root cause class of a wrong answer (used as the signature site, so that
// one defect is one finding whatever syscall exposed it).
func pathFeatures(e c02expect, root string) string {
	if e.useDfd && e.dfd != 0xffffffffffffff9c && !strings.HasPrefix(e.path, "/") {
		if uint32(e.dfd) == 0xffffff9c {
			return "atfdcwd_register_encoding"
		}
		if e.dfd>>32 != 0 {
			return "descriptor_upper_half"
		}
	}
	if strings.HasPrefix(e.what, "symlinkat") {
		return "symlinkat"
	}
	if !e.follow {
		return "nofollow_call"
	}
	if strings.Contains(e.path, "..") {
		return "dotdot"
	}
	return "other"
}

func init() {
	register(&vcore.Prop{
		ID: "C02", Level: "exploration", Worlds: "K",
		Rule:       "one run = one symlink forest (4 directories, 4 files, 2..6 links with relative/absolute/looping/dangling targets), a tracee cwd and two directory descriptors, and 3..14 traced path system calls (25 kinds incl. *at variants, flag words, AT_SYMLINK_NOFOLLOW/FOLLOW, open_how readable or not) over path strings of 1..5 components with '.', '..', doubled and trailing slashes, absolute or relative, with dirfd registers encoded as AT_FDCWD sign-/zero-/garbage-extended or as a descriptor with garbage in the upper half; every call is soft-banned. While the tracee is stopped in the call the harness resolves the same pair through /proc/<pid>/{cwd,fd} with O_PATH and compares path and access class. distinct = hash of the call kinds; all runs non-trivial. The schedule dimension is degenerate for this property (tracee stopped while the handler runs)",
		Components: kComponents, Assumptions: append([]string{"a consultation CheckSyscall(\"procfs-path\") instead of a path query is accepted for procfs object references (explicit fail-closed policy)", "calls whose kernel resolution fails are outside the quantifier"}, kAssume...), NeedNS: true,
		Quick:    vcore.Budget{Wall: 30 * time.Second, Shards: 16},
		Thorough: vcore.Budget{Wall: 12 * time.Minute, Shards: 16},
		Init:     kInitUnpriv, Run: c02Run, StallLimit: 120 * time.Second,
	})
}
