//go:build verif && !verifs2

package sim

import (
	"sync"
	"context"
	"fmt"
	"os"
	"path/filepath"
	"strings"
	"syscall"
	"time"

	"github.com/criyle/go-sandbox/ptracer"
	"github.com/criyle/go-sandbox/runner"
	"github.com/criyle/go-sandbox/zverif/vcore"
	"golang.org/x/sys/unix"
)

// termSignal reports whether the default action of s terminates the process.
func termSignal(s int) bool {
	switch syscall.Signal(s) {
	case syscall.SIGCHLD, syscall.SIGCONT, syscall.SIGSTOP, syscall.SIGTSTP, syscall.SIGTTIN, syscall.SIGTTOU, syscall.SIGURG, syscall.SIGWINCH:
		return false
	}
	return s >= 1 && s <= 64
}

// tableVerdict is the documented status table (README "Result Status").
func tableVerdict(exited bool, code int, sig int) (runner.Status, int) {
	if exited {
		if code == 0 {
			return runner.StatusNormal, 0
		}
		return runner.StatusNonzeroExitStatus, code
	}
	switch syscall.Signal(sig) {
	case syscall.SIGXCPU, syscall.SIGKILL:
		return runner.StatusTimeLimitExceeded, sig
	case syscall.SIGXFSZ:
		return runner.StatusOutputLimitExceeded, sig
	case syscall.SIGSYS:
		return runner.StatusDisallowedSyscall, sig
	}
	return runner.StatusSignalled, sig
}

var sideLimitSignal bool // a secondary process raises SIGXCPU/SIGXFSZ in this run

// genSideShow draws what the program's other processes do before the main process ends.
func genSideShow(c *vcore.Ctx, allowSignals bool) []string {
	src := c.Src
	var s []string
	sideLimitSignal = false
	n := src.Int(3, "nchildren")
	for i := 0; i < n; i++ {
		kind := src.Pick("childkind", "exit", "crash", "linger", "thread", "grandchild", "heavy_linger", "heavy_linger")
		c.MarkNonTrivial()
		switch kind {
		case "exit":
			s = append(s, "fork", "1", "exit", fmt.Sprint(1+src.Int(200, "ccode")))
		case "crash":
			if allowSignals {
				sg := []int{11, 6, 15, 9, 7, 25, 24}[src.Int(7, "csig")] // SIGSYS in a secondary process is C03 territory (filter kill)
				if sg == 24 || sg == 25 {
					sideLimitSignal = true
				}
				s = append(s, "fork", "2", "dfl", "raise", fmt.Sprint(sg))
			} else {
				s = append(s, "fork", "1", "segv")
			}
		case "linger":
			s = append(s, "fork", "1", "sleep", "300")
		case "heavy_linger":
			// left behind holding memory: slow to die when the runner sweeps up, and the next run (same
			// container, same worker) starts right away - what one program leaves must not decide how the
			// next one's ending is reported
			s = append(s, "fork", "3", "ignore", "alloc", "128", "pause")
		case "thread":
			s = append(s, "thread", "1", "sleep", "200")
		case "grandchild":
			s = append(s, "fork", "2", "fork", "1", "exit", "9", "exit", "4")
		}
	}
	if n > 0 && src.Bool(3, 4, "settle") {
		s = append(s, "sleep", "20")
	}
	return s
}

func c09Run(c *vcore.Ctx) *vcore.Violation {
	const prop = "C09"
	src := c.Src
	kind := src.Pick("runner", "ptrace", "ptrace", "unshare", "container", "container_syncafter")
	var script []string
	inPidNs := kind == "unshare"
	if strings.HasPrefix(kind, "container") {
		// programs in a container inherit SIG_IGN for a dozen signals from the init process; the
		// probe restores the default dispositions so that "ended by signal s" is what really happens
		script = append(script, "dfl")
	}
	script = append(script, genSideShow(c, !inPidNs)...)
	exited := true
	outsideKill := false
	code, sig := 0, 0
	how := src.Int(10, "ending")
	switch {
	case how < 5:
		code = src.Int(256, "code")
		if src.Bool(1, 4, "exit_zero") {
			code = 0 // the most common ending of all deserves more than 1/256 of the exits
		}
		script = append(script, "exit", fmt.Sprint(code))
	case how < 9 && !inPidNs:
		for {
			sig = 1 + src.Int(64, "sig")
			if termSignal(sig) {
				break
			}
		}
		exited = false
		mode := "raise"
		if src.Bool(1, 3, "threadraise") {
			mode = "threadraise"
		}
		script = append(script, mode, fmt.Sprint(sig), "sleep", "2000", "exit", "99")
	case kind != "container_syncafter" && src.Bool(1, 2, "killed_from_outside"): // (after-exec sync hands out the init's pid, not the program's)
		// SIGKILL from somebody else (the OOM killer, an operator, the hard CPU limit): the table says
		// Time Limit Exceeded, in every runner; also the init of a pid namespace cannot ignore it
		exited, sig = false, int(syscall.SIGKILL)
		outsideKill = true
		script = append(script, "sleep", "20000", "exit", "98")
	default:
		// a real fault: works for every runner, also for the init of a pid namespace
		exited, sig = false, int(syscall.SIGSEGV)
		script = append(script, "segv")
	}
	pidCh := make(chan int, 4)
	var sync func(int) error
	if outsideKill {
		sync = func(pid int) error { pidCh <- pid; return nil }
		go func() {
			select {
			case pid := <-pidCh:
				// only once the target program itself is executing (the callback runs before the exec, and
				// killing the launching child would be a failed launch, not an ending of the program)
				for i := 0; i < 2000; i++ {
					if exe, err := os.Readlink(fmt.Sprintf("/proc/%d/exe", pid)); err != nil || strings.HasSuffix(exe, filepath.Base(probePath)) {
						break
					}
					time.Sleep(2 * time.Millisecond)
				}
				time.Sleep(20 * time.Millisecond)
				syscall.Kill(pid, syscall.SIGKILL)
			case <-time.After(50 * time.Second):
			}
		}()
	}
	c.Logf("runner=%s script=%v", kind, script)
	c.Event("runner:" + kind)
	c.Event(fmt.Sprintf("end:%v:%d:%d", exited, code, sig))
	var res runner.Result
	ok := watchdog(60*time.Second, func() {
		switch kind {
		case "ptrace":
			h := &recHandler{}
			res, _ = kRunPtrace(context.Background(), &kOpts{script: script, filter: kFilterAllowAllBut(nil, nil), handler: h, syncFunc: sync})
		case "unshare":
			res, _ = kRunUnshare(context.Background(), &kOpts{script: script, syncFunc: sync})
		default:
			ct := sharedContainer()
			if ct == nil {
				vcore.Harnessf("container build failed")
			}
			e := &kExec{script: script, syncAfter: kind == "container_syncafter"}
			if src.Bool(1, 2, "withsync") {
				e.syncFunc = func(int) error { return nil }
			}
			if sync != nil {
				e.syncFunc = sync
			}
			res, _ = ct.exec(context.Background(), e)
		}
	})
	if !ok {
		return vcore.Violate(prop, "hang", kind, "run did not return within 60s: %v", script)
	}
	wantS, wantE := tableVerdict(exited, code, sig)
	c.Logf("result: %v exit=%d err=%q; table says %s exit=%d", statusName(res.Status), res.ExitStatus, res.Error, statusName(wantS), wantE)
	site := kind + "/"
	if exited {
		site += "exit"
	} else {
		site += fmt.Sprintf("sig%d", sig)
	}
	if res.Status == runner.StatusRunnerError {
		if res.Error == "" {
			return vcore.Violate(prop, "runner_error_without_text", site, "Runner Error with empty explanation for %v", script)
		}
		return vcore.Violate(prop, "runner_error", site, "program ended by %s but the result is Runner Error (%s)", describeEnd(exited, code, sig), res.Error)
	}
	exitMatters := wantS == runner.StatusNormal || wantS == runner.StatusNonzeroExitStatus || wantS == runner.StatusSignalled
	if res.Status != wantS || (exitMatters && res.ExitStatus != wantE) {
		if kind == "ptrace" && sideLimitSignal && (res.Status == runner.StatusTimeLimitExceeded || res.Status == runner.StatusOutputLimitExceeded) {
			site = "ptrace/secondary_process_limit_signal"
		}
		return vcore.Violate(prop, "wrong_status", site, "program ended by %s: got %s/%d, the table says %s/%d", describeEnd(exited, code, sig), statusName(res.Status), res.ExitStatus, statusName(wantS), wantE)
	}
	return nil
}

func describeEnd(exited bool, code, sig int) string {
	if exited {
		return fmt.Sprintf("exit(%d)", code)
	}
	return fmt.Sprintf("signal %d", sig)
}

var sharedCt *kContainer

// sharedContainer returns a per-worker container environment (rebuilt if it died).
func sharedContainer() *kContainer {
	if sharedCt != nil {
		if err := sharedCt.env.Ping(); err == nil {
			return sharedCt
		}
		sharedCt.destroy()
		sharedCt = nil
	}
	ct, err := kBuildContainer(nil, nil, nil)
	if err != nil {
		vcore.Harnessf("container build: %v", err)
	}
	sharedCt = ct
	return ct
}

// ---- C15 --------------------------------------------------------------------------------------

// hostile argument encodings for path/pointer arguments
var hostilePtrs = []string{"n", "k", "o", "u:100", "u:4095", "u:4096", "u:4097", "u:5000", "u:12288", "x:/etc/passwd", "p:/etc/passwd", "l:4094:/tmp/", "l:4095:/tmp/", "l:4096:/tmp/", "l:8000:/", "s:relative/path", "s:/proc/self/fd/0", "s:", "18446744073709551615", "0x7fffffffffff"}

// c15Ptrs: the hostile pointer encodings plus names in a forest of links that never resolve: a link to itself,
// a cycle of two, chains longer than the kernel follows - with absolute and with relative targets, as the last
// component and in the middle of the name. The kernel answers ELOOP; the tracer, which walks the same links
// to name the object for the policy, must come back too.
var c15LoopOnce sync.Once
var c15LoopPtrs []string

func c15Ptrs() []string {
	c15LoopOnce.Do(func() {
		d := filepath.Join(kDir, "c15loops")
		os.MkdirAll(d, 0755)
		os.Symlink(filepath.Join(d, "selfabs"), filepath.Join(d, "selfabs"))
		os.Symlink("selfrel", filepath.Join(d, "selfrel"))
		os.Symlink(filepath.Join(d, "pong"), filepath.Join(d, "ping"))
		os.Symlink(filepath.Join(d, "ping"), filepath.Join(d, "pong"))
		os.Symlink("rpong", filepath.Join(d, "rping"))
		os.Symlink("rping", filepath.Join(d, "rpong"))
		for i := 0; i < 60; i++ {
			os.Symlink(filepath.Join(d, fmt.Sprintf("chain%d", i+1)), filepath.Join(d, fmt.Sprintf("chain%d", i)))
			os.Symlink(fmt.Sprintf("rchain%d", i+1), filepath.Join(d, fmt.Sprintf("rchain%d", i)))
		}
		os.Mkdir(filepath.Join(d, "chain60"), 0755)
		os.Mkdir(filepath.Join(d, "rchain60"), 0755)
		c15LoopPtrs = append([]string(nil), hostilePtrs...)
		for _, n := range []string{"selfabs", "selfrel", "ping", "rping", "chain0", "rchain0", "chain30"} {
			c15LoopPtrs = append(c15LoopPtrs, "s:"+filepath.Join(d, n), "s:"+filepath.Join(d, n, "x"))
		}
	})
	return c15LoopPtrs
}

var pathSyscalls = []struct {
	name string
	nr   int
	ptr  []int // which arguments are pathname pointers
	dfd  int   // which argument is a dirfd (-1 none)
}{
	{"open", 2, []int{0}, -1}, {"openat", 257, []int{1}, 0}, {"openat2", 437, []int{1, 2}, 0}, {"stat", 4, []int{0}, -1}, {"lstat", 6, []int{0}, -1},
	{"newfstatat", 262, []int{1}, 0}, {"access", 21, []int{0}, -1}, {"faccessat", 269, []int{1}, 0}, {"readlink", 89, []int{0}, -1},
	{"readlinkat", 267, []int{1}, 0}, {"unlink", 87, []int{0}, -1}, {"unlinkat", 263, []int{1}, 0}, {"rename", 82, []int{0, 1}, -1},
	{"renameat", 264, []int{1, 3}, 0}, {"renameat2", 316, []int{1, 3}, 0}, {"linkat", 265, []int{1, 3}, 0}, {"symlinkat", 266, []int{0, 2}, 1},
	{"mkdirat", 258, []int{1}, 0}, {"mknodat", 259, []int{1}, 0}, {"chmod", 90, []int{0}, -1}, {"fchmodat", 268, []int{1}, 0},
	{"execve", 59, []int{0}, -1}, {"execveat", 322, []int{1}, 0}, {"statx", 332, []int{1}, 0}, {"faccessat2", 439, []int{1}, 0},
}

var hostileFds = []string{"-100", "4294967196", "0xffffffffffffff9c", "0x100000003", "-1", "99999", "3", "0x7fffffff", "18446744073709551615"}

func pathTraceNames() []string {
	var n []string
	for _, p := range pathSyscalls {
		n = append(n, p.name)
	}
	return n
}

func c15Run(c *vcore.Ctx) *vcore.Violation {
	const prop = "C15"
	src := c.Src
	var script []string
	ncalls := 1 + src.Int(5, "ncalls")
	var sites []string
	inChild := src.Bool(1, 4, "inchild")
	inThread := !inChild && src.Bool(1, 4, "inthread")
	var body []string
	for i := 0; i < ncalls; i++ {
		if src.Bool(1, 8, "weirdnr") {
			// (the last five: a traced call's number in the low half of the register, garbage in the high half -
			// the kernel and the filter look at 32 bits, the tracer reads all 64)
			nr := src.Pick("nr", "9999", "-1", "0x40000001", "0x4000003b", "1000000", "335", "18446744073709551615",
				"0x100000002", "0xffffffff00000002", "0x8000000000000101", "0x7fffffff00000015", "0xdeadbeef00000106")
			body = append(body, "sys", nr, "0", "0", "0", "0", "0", "0")
			sites = append(sites, "nr:"+nr)
			continue
		}
		ps := pathSyscalls[src.Int(len(pathSyscalls), "sys")]
		args := []string{"0", "0", "0", "0", "0", "0"}
		enc := ""
		for _, pi := range ps.ptr {
			ptrs := c15Ptrs()
			enc = ptrs[src.Int(len(ptrs), "ptr")]
			args[pi] = enc
		}
		if ps.dfd >= 0 {
			args[ps.dfd] = hostileFds[src.Int(len(hostileFds), "dfd")]
		}
		if ps.name == "open" || ps.name == "openat" {
			fl := src.Pick("flags", "0", "0xffffffffffffffff", "0x100000000", "2", "0x241")
			if ps.name == "open" {
				args[1] = fl
			} else {
				args[2] = fl
			}
		}
		if ps.name == "openat2" {
			// the size of struct open_how is the program's to choose, too (the kernel refuses absurd ones itself)
			args[3] = src.Pick("howsize", "24", "24", "0", "8", "4097", "0x4000000000000000", "18446744073709551615")
		}
		body = append(body, append([]string{"sys", fmt.Sprint(ps.nr)}, args...)...)
		sites = append(sites, ps.name+":"+strings.SplitN(enc, ":", 2)[0])
	}
	nops := ncalls
	switch {
	case inChild:
		script = append(script, "fork", fmt.Sprint(nops))
		script = append(script, body...)
		if src.Bool(1, 2, "killchild") {
			// the child may die (killed by its parent) while the tracer is handling its stops
			script = append(script, "killlast")
		}
		script = append(script, "sleep", "5", "exit", "0")
	case inThread:
		script = append(script, "thread", fmt.Sprint(nops))
		script = append(script, body...)
		if src.Bool(1, 2, "mainexits") {
			script = append(script, "exit", "0")
		} else {
			script = append(script, "sleep", "30", "exit", "0")
		}
	default:
		script = append(script, body...)
		script = append(script, "exit", "0")
	}
	c.Logf("script=%v", script)
	for _, s := range sites {
		c.Event(s)
	}
	c.MarkNonTrivial()
	h := &recHandler{decide: func(kind, arg string, n int) ptracer.TraceAction {
		// soft-ban everything that reaches the policy so nothing is modified on disk
		return ptracer.TraceBan
	}}
	// fault: a tracee is killed (SIGKILL from outside) exactly between one of its stops and the
	// tracer's next request; the tracer is parked in the hook until the victim is really gone
	killAt := -1
	if src.Bool(1, 3, "killatstop") {
		killAt = src.Int(14, "stopidx")
	}
	stops, killed := 0, 0
	if killAt >= 0 {
		ptracer.VSetAfterWait(func(pid int, ws unix.WaitStatus) {
			if !ws.Stopped() {
				return
			}
			if stops == killAt {
				syscall.Kill(pid, syscall.SIGKILL)
				for i := 0; i < 400 && pidAlive(pid); i++ {
					time.Sleep(5 * time.Millisecond)
				}
				killed = pid
			}
			stops++
		})
		defer ptracer.VSetAfterWait(nil)
	}
	var res runner.Result
	ok := watchdog(60*time.Second, func() {
		res, _ = kRunPtrace(context.Background(), &kOpts{script: script, filter: kFilterAllowAllBut(pathTraceNames(), nil), handler: h})
	})
	site := sites[0]
	if killed != 0 {
		c.Fault("tracee_killed_between_stop_and_request")
		c.Logf("fault: tracee %d killed at its stop #%d, tracer released after it was gone", killed, killAt)
		site = "tracee_killed_at_stop"
	}
	if !ok {
		return vcore.Violate(prop, "hang", site, "the tracer stopped making progress: %v", script)
	}
	c.Logf("result: %s exit=%d err=%q; policy consulted %d times", statusName(res.Status), res.ExitStatus, res.Error, len(h.Calls()))
	if res.Status == runner.StatusRunnerError {
		kind := "runner_error"
		if strings.Contains(res.Error, "runtime error") || strings.Contains(res.Error, "panic") {
			kind = "tracer_panic"
		}
		es := shrinkSite(res.Error)
		if killed != 0 {
			es = "tracee_killed_at_stop/" + es
		}
		return vcore.Violate(prop, kind, es, "a program using %v made the runner fail: %s", sites, res.Error)
	}
	switch res.Status {
	case runner.StatusNormal, runner.StatusNonzeroExitStatus, runner.StatusSignalled, runner.StatusTimeLimitExceeded, runner.StatusMemoryLimitExceeded, runner.StatusOutputLimitExceeded, runner.StatusDisallowedSyscall:
	default:
		return vcore.Violate(prop, "no_verdict", site, "status %d is not a verdict about the program", res.Status)
	}
	return nil
}

// shrinkSite keeps the stable part of an error text as the signature site.
func shrinkSite(e string) string {
	e = strings.ToLower(e)
	for _, k := range []string{"slice bounds out of range", "index out of range", "nil pointer", "no such process", "wait4", "before execve"} {
		if strings.Contains(e, k) {
			return strings.ReplaceAll(k, " ", "_")
		}
	}
	if len(e) > 40 {
		e = e[:40]
	}
	return e
}

func init() {
	register(&vcore.Prop{
		ID: "C09", Level: "exploration", Worlds: "K",
		Rule:       "one run = one probe program ending by exit(n), n drawn from 0..255, by raise(s)/tgkill(s) for a terminating s in 1..64, or by a real fault, after 0..2 other processes/threads of the program exited, crashed, lingered or forked grandchildren, in one of: ptrace runner, namespace runner, container (sync before / after exec, with/without callback); the Result is compared with the documented table. distinct = (runner, ending, side-show) hash; non-trivial = the program had other processes or threads",
		Components: kComponents, Assumptions: kAssume, NeedNS: true,
		Quick:    vcore.Budget{Wall: 30 * time.Second, Shards: 16},
		Thorough: vcore.Budget{Wall: 12 * time.Minute, Shards: 16},
		Init:     kInit, Run: c09Run,
		StallLimit: 120 * time.Second,
	})
	register(&vcore.Prop{
		ID: "C15", Level: "exploration", Worlds: "K",
		Rule:       "one run = one hostile probe program under runner/ptrace with every path system call traced: 1..5 calls drawn from 25 path system calls x 20 pointer encodings (NULL, kernel, odd, unterminated blocks of 100..12288 bytes ending at an unmapped page, strings whose NUL is the last mapped byte, strings running into an unmapped page, PATH_MAX-1/PATH_MAX/PATH_MAX+1 strings) x 9 dirfd encodings x flag words, unknown / negative / x32 system call numbers; issued by the main process, a child (optionally killed by its parent mid-way) or a thread (optionally while the main thread exits). distinct = hash of the call list; all runs are non-trivial",
		Components: kComponents, Assumptions: kAssume, NeedNS: true,
		Quick:    vcore.Budget{Wall: 30 * time.Second, Shards: 16},
		Thorough: vcore.Budget{Wall: 12 * time.Minute, Shards: 16},
		Init:     kInitUnpriv, Run: c15Run,
		StallLimit: 120 * time.Second,
	})
}
