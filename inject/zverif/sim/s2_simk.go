//go:build verif && verifs2

package sim

import (
	"fmt"
	"runtime"
	"sort"
	"strings"
	"syscall"
	"unsafe"

	"github.com/criyle/go-sandbox/pkg/forkexec"
	"github.com/criyle/go-sandbox/zverif/vcore"
	"golang.org/x/sys/unix"
)

// ---------------------------------------------------------------------------------------------
// simk: the stub kernel of world S2. It models exactly what the launch protocol of pkg/forkexec
// touches. Every system call of the parent and of the child is a scheduling point and a fault
// point owned by the simulator. Semantics are written from the man pages, not from the code
// under test; a sample of configurations is cross-checked against the real kernel (world K).
// ---------------------------------------------------------------------------------------------

type kfile struct {
	id    int
	kind  string // "file", "sock", "procfile", "cgroupdir"
	label string
	peer  *kfile
	buf   []byte // bytes readable from this socket end
	refs  int    // open descriptors (all processes) referring to this file
	wrote []byte // bytes written to a procfile
}

type kfd struct {
	f       *kfile
	cloexec bool
}

const (
	secNoRoot            = 1 << 0
	secNoRootLocked      = 1 << 1
	secNoSetuidFixup     = 1 << 2
	secNoSetuidFixupLock = 1 << 3
	secKeepCaps          = 1 << 4
	secKeepCapsLocked    = 1 << 5
	secAllBits           = secNoRoot | secNoSetuidFixup | secKeepCaps | 1<<6
	secAllLocks          = secAllBits << 1
)

type kproc struct {
	pid    int
	parent *kproc
	fds    map[int]*kfd

	uid, gid                  uint32
	groups                    []uint32
	groupsTouched             bool
	capEff, capPrm, capInh    bool
	securebits                uint
	nnp                       bool
	seccomp                   int
	traceme                   bool
	stopped                   bool
	sid, pgid                 int
	cwd                       string
	host, domain              string
	rlimits                   map[int]syscall.Rlimit
	ns                        uintptr
	cgroupNsLate              bool
	userns                    bool
	uidMap, gidMap, setgroups string
	mountLog                  []string
	pivoted                   bool
	rootRO                    bool
	cgroupFile                *kfile
	ctty                      bool

	alive            bool
	zombie           bool
	reaped           bool
	exitSig          int
	exitVal          int
	execed           bool
	snap             *ksnap
	vmShared         bool
	unprivilegedUser bool
}

// ksnap is the state of the program at the instant of a successful exec.
type ksnap struct {
	fds       map[int]int // fd -> file id (close-on-exec descriptors are gone)
	fdLabels  map[int]string
	uid, gid  uint32
	groups    []uint32
	capsEmpty bool // post-exec capability sets, computed with the kernel's exec rule
	noroot    bool
	nnp       bool
	seccomp   int
	sidIsPid  bool
	cwd       string
	host      string
	domain    string
	rlimits   map[int]syscall.Rlimit
	ns        uintptr
	cgroupNs  bool
	mountLog  []string
	pivoted   bool
	rootRO    bool
	execPath  string
	execFd    int
	execFile  int
	cgroup    int
	traceme   bool
	ctty      bool
	sysIndex  int
}

type sysreq struct {
	trap uintptr
	a    [6]uintptr
	kind string // "", "vforkwait", "start"
}

type kgrant struct {
	die   bool
	fault *kfault
}

type kfault struct {
	errno syscall.Errno
	short bool // short read/write on the sync socket
	die   bool // the process is killed by a signal instead of executing the call
}

type kactor struct {
	name     string
	proc     *kproc
	grant    chan kgrant
	pend     *sysreq
	parked   bool
	finished bool
	isChild  bool
	entered  bool // child: has passed its own clone call
	nsys     int  // system calls begun by this actor (fault targets are (actor, ordinal): stable under any interleaving)
}

type ktrace struct {
	idx   int
	actor string
	pid   int
	name  string
	args  string
	ret   int64
	errno syscall.Errno
	fault bool
	ord   int
}

type simk struct {
	c        *vcore.Ctx
	procs    map[int]*kproc
	nextPid  int
	nextFile int
	actors   []*kactor
	cur      *kactor
	notify   chan *kactor
	trace    []ktrace
	sysIdx   int

	// launch bookkeeping
	relaunch  func(r *forkexec.Runner)
	launchR   *forkexec.Runner
	sockFds   [2]int
	parent    *kproc
	child     *kproc
	childAct  *kactor
	execErrno syscall.Errno // errno the exec syscall fails with (0 = succeeds)
	execBusy  int           // number of ETXTBSY answers before exec succeeds/fails

	// fault plan
	failAt    int // global syscall index at which the fault is injected (-1 none)
	failKind  string
	faultDone bool
	faultDesc string

	// schedule
	childFirst int // 0 random, 1 prefer child, 2 prefer parent

	// gate bookkeeping (event indices in trace order)
	evChildSyncWrite     int
	evAckWrite           int
	evCallbackStart      int
	evCallbackEnd        int
	evExec               int
	callbackPid          int
	childSyscallsBetween []string
	deadlock             string
}

func newSimk(c *vcore.Ctx) *simk {
	k := &simk{c: c, procs: map[int]*kproc{}, nextPid: 5000, nextFile: 100, notify: make(chan *kactor, 8), failAt: -1,
		evChildSyncWrite: -1, evAckWrite: -1, evCallbackStart: -1, evCallbackEnd: -1, evExec: -1}
	return k
}

func (k *simk) newFile(kind, label string) *kfile {
	k.nextFile++
	return &kfile{id: k.nextFile, kind: kind, label: label}
}

func (k *simk) newProc(parent *kproc) *kproc {
	k.nextPid += 7
	p := &kproc{pid: k.nextPid, parent: parent, fds: map[int]*kfd{}, alive: true, rlimits: map[int]syscall.Rlimit{}}
	k.procs[p.pid] = p
	return p
}

func (p *kproc) install(fd int, f *kfile, cloexec bool) {
	if old := p.fds[fd]; old != nil {
		old.f.refs--
	}
	p.fds[fd] = &kfd{f: f, cloexec: cloexec}
	f.refs++
}

func (p *kproc) closeFd(fd int) bool {
	e := p.fds[fd]
	if e == nil {
		return false
	}
	e.f.refs--
	delete(p.fds, fd)
	return true
}

func (p *kproc) closeAll() {
	for fd := range p.fds {
		p.closeFd(fd)
	}
}

func cstr(ptr uintptr) string {
	if ptr == 0 {
		return "<nil>"
	}
	var b []byte
	for i := 0; i < 4096; i++ {
		c := *(*byte)(unsafe.Pointer(ptr + uintptr(i)))
		if c == 0 {
			break
		}
		b = append(b, c)
	}
	return string(b)
}

// ---- actor plumbing ---------------------------------------------------------------------------

func (k *simk) park(a *kactor, req *sysreq) kgrant {
	a.pend = req
	a.parked = true
	k.notify <- a
	g := <-a.grant
	if g.die {
		runtime.Goexit() // the deferred function of spawn reports the end of this actor
	}
	return g
}

// spawn starts f as a new actor of process p; it runs only when first granted.
func (k *simk) spawn(name string, p *kproc, isChild bool, f func()) *kactor {
	a := &kactor{name: name, proc: p, grant: make(chan kgrant), isChild: isChild, parked: true, pend: &sysreq{kind: "start"}}
	k.actors = append(k.actors, a)
	go func() {
		g := <-a.grant
		if g.die {
			a.finished = true
			k.notify <- a
			return
		}
		defer func() {
			a.finished = true
			k.notify <- a
		}()
		f()
	}()
	return a
}

func (k *simk) Go(f func()) {
	k.spawn(k.cur.name+"/reader", k.cur.proc, false, f)
}

func (k *simk) ForkLock(lock bool) {}

func (k *simk) BeginLaunch(r *forkexec.Runner, relaunch func(r *forkexec.Runner)) {
	k.relaunch = relaunch
	k.launchR = r
}

func (k *simk) Socketpair() ([2]int, error) {
	a := k.cur
	g := k.park(a, &sysreq{trap: syscall.SYS_SOCKETPAIR})
	idx := k.begin(a, "socketpair", "")
	if g.fault != nil {
		k.end(idx, -1, g.fault.errno, true)
		return [2]int{}, g.fault.errno
	}
	f0 := k.newFile("sock", "sync[0]")
	f1 := k.newFile("sock", "sync[1]")
	f0.peer, f1.peer = f1, f0
	fds := k.sockFds
	for i := range fds {
		// the kernel never hands out a number that is still open (e.g. held by the reader of an earlier launch)
		for a.proc.fds[fds[i]] != nil || (i == 1 && fds[1] == fds[0]) {
			fds[i]++
		}
		a.proc.install(fds[i], []*kfile{f0, f1}[i], true)
	}
	k.end(idx, 0, 0, false)
	return fds, nil
}

func (k *simk) begin(a *kactor, name, args string) int {
	k.trace = append(k.trace, ktrace{idx: k.sysIdx, actor: a.name, pid: a.proc.pid, name: name, args: args, ord: a.nsys})
	k.sysIdx++
	a.nsys++
	return len(k.trace) - 1
}

func (k *simk) end(i int, ret int64, errno syscall.Errno, fault bool) {
	k.trace[i].ret, k.trace[i].errno, k.trace[i].fault = ret, errno, fault
}

func (k *simk) Vfork(trap, a1, a2, a3 uintptr) (uintptr, syscall.Errno) {
	a := k.cur
	if a.isChild && !a.entered {
		a.entered = true
		return 0, 0 // the child's own return from clone
	}
	g := k.park(a, &sysreq{trap: trap, a: [6]uintptr{a1, a2, a3}})
	var flags uint64
	var cgroupFd int = -1
	name := "clone"
	if trap == unix.SYS_CLONE3 {
		name = "clone3"
		args := (*[11]uint64)(unsafe.Pointer(a1))
		flags = args[0]
		if flags&unix.CLONE_INTO_CGROUP != 0 {
			cgroupFd = int(args[10])
		}
	} else {
		flags = uint64(a1)
	}
	idx := k.begin(a, name, fmt.Sprintf("flags=%#x", flags))
	if g.fault != nil {
		k.end(idx, -1, g.fault.errno, true)
		return 0, g.fault.errno
	}
	par := a.proc
	if cgroupFd >= 0 {
		e := par.fds[cgroupFd]
		if e == nil {
			k.end(idx, -1, syscall.EBADF, false)
			return 0, syscall.EBADF
		}
	}
	ch := k.newProc(par)
	for fd, e := range par.fds {
		ch.install(fd, e.f, e.cloexec)
	}
	ch.uid, ch.gid, ch.groups = par.uid, par.gid, append([]uint32(nil), par.groups...)
	ch.capEff, ch.capPrm, ch.capInh = par.capEff, par.capPrm, par.capInh
	ch.securebits, ch.nnp, ch.seccomp = par.securebits, par.nnp, par.seccomp
	ch.sid, ch.pgid, ch.cwd, ch.host, ch.domain = par.sid, par.pgid, par.cwd, par.host, par.domain
	for r, l := range par.rlimits {
		ch.rlimits[r] = l
	}
	ch.ns = uintptr(flags) & forkexec.UnshareFlags
	ch.unprivilegedUser = par.unprivilegedUser
	if flags&unix.CLONE_NEWUSER != 0 {
		ch.userns = true
		// a new user namespace gives a full capability set inside it, ids unmapped until the maps are written
		ch.capEff, ch.capPrm = true, true
	} else if par.unprivilegedUser && ch.ns != 0 {
		ch.alive = false
		delete(k.procs, ch.pid)
		ch.closeAll()
		k.end(idx, -1, syscall.EPERM, false)
		return 0, syscall.EPERM
	}
	if cgroupFd >= 0 {
		ch.cgroupFile = par.fds[cgroupFd].f
	}
	ch.vmShared = flags&syscall.CLONE_VM != 0
	k.child = ch
	r := k.launchR
	if !ch.vmShared {
		r = deepCopyRunner(k.launchR)
	}
	relaunch := k.relaunch
	k.childAct = k.spawn("child", ch, true, func() { relaunch(r) })
	k.end(idx, int64(ch.pid), 0, false)
	if flags&syscall.CLONE_VFORK != 0 {
		k.park(a, &sysreq{kind: "vforkwait"})
	}
	return uintptr(ch.pid), 0
}

func deepCopyRunner(r *forkexec.Runner) *forkexec.Runner {
	c := *r
	c.Args = append([]string(nil), r.Args...)
	c.Env = append([]string(nil), r.Env...)
	c.Files = append([]uintptr(nil), r.Files...)
	c.RLimits = append(c.RLimits[:0:0], r.RLimits...)
	c.Mounts = append(c.Mounts[:0:0], r.Mounts...)
	if r.Credential != nil {
		cr := *r.Credential
		cr.Groups = append([]uint32(nil), r.Credential.Groups...)
		c.Credential = &cr
	}
	return &c
}

// ready reports whether the parked call of a can complete now.
func (k *simk) ready(a *kactor) bool {
	if a.finished || !a.parked || a.pend == nil {
		return false
	}
	p := a.proc
	if !p.alive {
		return true // will be told to die
	}
	if p.stopped {
		return false
	}
	req := a.pend
	switch req.kind {
	case "start":
		return true
	case "vforkwait":
		return k.child.execed || !k.child.alive
	}
	switch req.trap {
	case syscall.SYS_READ:
		e := p.fds[int(req.a[0])]
		if e == nil || e.f.kind != "sock" {
			return true
		}
		return len(e.f.buf) > 0 || e.f.peer.refs == 0
	case syscall.SYS_WAIT4:
		pid := int(req.a[0])
		t := k.procs[pid]
		if t == nil || t.reaped || t.parent != p {
			return true // ECHILD
		}
		return !t.alive
	}
	return true
}

// Raw is the system call entry of every actor.
func (k *simk) Raw(trap, a1, a2, a3, a4, a5, a6 uintptr) (uintptr, uintptr, syscall.Errno) {
	a := k.cur
	if a.isChild && !a.entered {
		// the child actor re-runs the launch function from its top: until it reaches its clone call it
		// is, semantically, still the parent re-doing what the parent did before the fork. Those calls
		// are answered from the parent's state and are not events of the child.
		par := a.proc.parent
		switch trap {
		case syscall.SYS_GETPID:
			return uintptr(par.pid), 0, 0
		case syscall.SYS_GETPPID:
			return 1, 0, 0
		case unix.SYS_GETTID:
			return uintptr(par.pid), 0, 0
		case syscall.SYS_GETUID, syscall.SYS_GETEUID:
			return uintptr(par.uid), 0, 0
		case syscall.SYS_GETGID, syscall.SYS_GETEGID:
			return uintptr(par.gid), 0, 0
		}
		vcore.Harnessf("stub kernel: system call %s before the clone is not modelled for the re-run of the child", sysName(trap))
	}
	req := &sysreq{trap: trap, a: [6]uintptr{a1, a2, a3, a4, a5, a6}}
	g := k.park(a, req)
	r, e := k.exec(a, req, g.fault)
	return r, 0, e
}

func (k *simk) kill(p *kproc, sig int) {
	if !p.alive {
		return
	}
	p.alive = false
	p.zombie = true
	p.exitSig = sig
	p.stopped = false
	p.closeAll()
}

func sysName(trap uintptr) string {
	switch trap {
	case syscall.SYS_CLOSE:
		return "close"
	case syscall.SYS_READ:
		return "read"
	case syscall.SYS_WRITE:
		return "write"
	case syscall.SYS_GETPID:
		return "getpid"
	case syscall.SYS_GETPPID:
		return "getppid"
	case syscall.SYS_PRCTL:
		return "prctl"
	case unix.SYS_SETGROUPS:
		return "setgroups"
	case unix.SYS_SETGID:
		return "setgid"
	case unix.SYS_SETUID:
		return "setuid"
	case syscall.SYS_DUP3:
		return "dup3"
	case syscall.SYS_FCNTL:
		return "fcntl"
	case syscall.SYS_SETSID:
		return "setsid"
	case syscall.SYS_IOCTL:
		return "ioctl"
	case syscall.SYS_MOUNT:
		return "mount"
	case syscall.SYS_CHDIR:
		return "chdir"
	case syscall.SYS_MKDIRAT:
		return "mkdirat"
	case syscall.SYS_MKNODAT:
		return "mknodat"
	case syscall.SYS_NEWFSTATAT:
		return "newfstatat"
	case syscall.SYS_STATFS:
		return "statfs"
	case syscall.SYS_PIVOT_ROOT:
		return "pivot_root"
	case syscall.SYS_UMOUNT2:
		return "umount2"
	case syscall.SYS_UNLINKAT:
		return "unlinkat"
	case syscall.SYS_SETHOSTNAME:
		return "sethostname"
	case syscall.SYS_SETDOMAINNAME:
		return "setdomainname"
	case syscall.SYS_PRLIMIT64:
		return "prlimit64"
	case syscall.SYS_CAPSET:
		return "capset"
	case syscall.SYS_PTRACE:
		return "ptrace"
	case syscall.SYS_KILL:
		return "kill"
	case unix.SYS_SECCOMP:
		return "seccomp"
	case syscall.SYS_UNSHARE:
		return "unshare"
	case unix.SYS_EXECVE:
		return "execve"
	case unix.SYS_EXECVEAT:
		return "execveat"
	case unix.SYS_NANOSLEEP:
		return "nanosleep"
	case syscall.SYS_EXIT:
		return "exit"
	case syscall.SYS_OPEN:
		return "open"
	case syscall.SYS_WAIT4:
		return "wait4"
	case syscall.SYS_SOCKETPAIR:
		return "socketpair"
	case syscall.SYS_CLONE:
		return "clone"
	case unix.SYS_CLONE3:
		return "clone3"
	}
	return fmt.Sprintf("sys_%d", trap)
}

func (k *simk) exec(a *kactor, req *sysreq, fault *kfault) (ret uintptr, errno syscall.Errno) {
	p := a.proc
	name := sysName(req.trap)
	idx := k.begin(a, name, "")
	setArgs := func(f string, v ...any) { k.trace[idx].args = fmt.Sprintf(f, v...) }
	done := func(r int64, e syscall.Errno) (uintptr, syscall.Errno) {
		k.end(idx, r, e, false)
		if e != 0 {
			return ^uintptr(0), e
		}
		return uintptr(r), 0
	}
	A := req.a
	// gate bookkeeping: child syscalls between its sync write and the parent's ack. Waking up from the
	// blocked read with EOF/error and leaving through the error path (write of the error record, exit)
	// is not "proceeding".
	if a.isChild && k.evChildSyncWrite >= 0 && k.evAckWrite < 0 && name != "read" && name != "write" && name != "exit" {
		k.childSyscallsBetween = append(k.childSyscallsBetween, name)
	}
	if fault != nil && !fault.short {
		if fault.die {
			setArgs("<killed by signal before the call>")
			k.end(idx, -1, 0, true)
			k.kill(p, int(syscall.SIGKILL))
			runtime.Goexit()
		}
		if req.trap == syscall.SYS_CLOSE {
			// close(2) releases the descriptor even when it reports an error
			p.closeFd(int(A[0]))
		}
		if req.trap != syscall.SYS_EXIT {
			setArgs("<fault>")
			k.end(idx, -1, fault.errno, true)
			return ^uintptr(0), fault.errno
		}
	}
	switch req.trap {
	case syscall.SYS_CLOSE:
		fd := int(A[0])
		setArgs("%d", fd)
		if !p.closeFd(fd) {
			return done(-1, syscall.EBADF)
		}
		return done(0, 0)
	case syscall.SYS_READ:
		fd, n := int(A[0]), int(A[2])
		setArgs("%d, n=%d", fd, n)
		e := p.fds[fd]
		if e == nil {
			return done(-1, syscall.EBADF)
		}
		if e.f.kind != "sock" {
			return done(0, 0)
		}
		if len(e.f.buf) == 0 {
			return done(0, 0) // EOF (ready() guarantees the peer is fully closed)
		}
		if n > len(e.f.buf) {
			n = len(e.f.buf)
		}
		if fault != nil && fault.short && n > 1 {
			n = n / 2
			k.trace[idx].fault = true
		}
		dst := unsafe.Slice((*byte)(unsafe.Pointer(A[1])), n)
		copy(dst, e.f.buf[:n])
		e.f.buf = e.f.buf[n:]
		return done(int64(n), 0)
	case syscall.SYS_WRITE:
		fd, n := int(A[0]), int(A[2])
		setArgs("%d, n=%d", fd, n)
		e := p.fds[fd]
		if e == nil {
			return done(-1, syscall.EBADF)
		}
		src := unsafe.Slice((*byte)(unsafe.Pointer(A[1])), n)
		switch e.f.kind {
		case "sock":
			if e.f.peer.refs == 0 {
				return done(-1, syscall.EPIPE)
			}
			if fault != nil && fault.short && n > 1 {
				n = n / 2
				k.trace[idx].fault = true
			}
			e.f.peer.buf = append(e.f.peer.buf, src[:n]...)
			if a.isChild {
				if n == int(unsafe.Sizeof(syscall.Errno(0))) && k.evChildSyncWrite < 0 {
					k.evChildSyncWrite = k.sysIdx - 1
				}
			} else if k.evChildSyncWrite >= 0 && k.evAckWrite < 0 && k.evCallbackEnd >= 0 {
				k.evAckWrite = k.sysIdx - 1
			}
		case "procfile":
			e.f.wrote = append(e.f.wrote, src...)
			if r, errno := k.procWrite(e.f, string(src)); errno != 0 {
				return done(r, errno)
			}
		}
		return done(int64(n), 0)
	case syscall.SYS_OPEN:
		path := cstr(A[0])
		setArgs("%q", path)
		// only /proc/<pid>/{uid_map,gid_map,setgroups} are opened by the launch protocol
		parts := strings.Split(strings.TrimPrefix(path, "/proc/"), "/")
		if !strings.HasPrefix(path, "/proc/") || len(parts) != 2 {
			return done(-1, syscall.ENOENT)
		}
		var pid int
		fmt.Sscanf(parts[0], "%d", &pid)
		t := k.procs[pid]
		if t == nil || !t.alive {
			return done(-1, syscall.ENOENT)
		}
		f := k.newFile("procfile", fmt.Sprintf("%d/%s", pid, parts[1]))
		fd := 40
		for p.fds[fd] != nil {
			fd++
		}
		p.install(fd, f, true)
		return done(int64(fd), 0)
	case syscall.SYS_GETPID:
		return done(int64(p.pid), 0)
	case syscall.SYS_GETPPID:
		// 0 for the first process of a new pid namespace (its parent is not visible), 1 for an orphan
		switch {
		case p.ns&unix.CLONE_NEWPID != 0:
			return done(0, 0)
		case p.parent == nil || !p.parent.alive:
			return done(1, 0)
		}
		return done(int64(p.parent.pid), 0)
	case syscall.SYS_PRCTL:
		switch A[0] {
		case syscall.PR_SET_SECUREBITS:
			nb := uint(A[1])
			setArgs("PR_SET_SECUREBITS, %#x", nb)
			old := p.securebits
			if ((old&secAllLocks)>>1)&(old^nb) != 0 || old&secAllLocks&^nb != 0 || nb&^(secAllLocks|secAllBits) != 0 || !p.capEff {
				return done(-1, syscall.EPERM)
			}
			p.securebits = nb
			return done(0, 0)
		case syscall.PR_SET_PDEATHSIG:
			setArgs("PR_SET_PDEATHSIG, %d", A[1])
			if A[1] > 64 {
				return done(-1, syscall.EINVAL)
			}
			return done(0, 0)
		case unix.PR_SET_NO_NEW_PRIVS:
			setArgs("PR_SET_NO_NEW_PRIVS, %d", A[1])
			if A[1] != 1 {
				return done(-1, syscall.EINVAL)
			}
			p.nnp = true
			return done(0, 0)
		}
		setArgs("%d", A[0])
		return done(-1, syscall.EINVAL)
	case unix.SYS_SETGROUPS:
		n := int(A[0])
		setArgs("n=%d", n)
		if !p.capEff || (p.userns && p.setgroups == "deny") || (p.userns && p.gidMap == "") {
			return done(-1, syscall.EPERM)
		}
		p.groups = nil
		if n > 0 {
			p.groups = append(p.groups, unsafe.Slice((*uint32)(unsafe.Pointer(A[1])), n)...)
		}
		p.groupsTouched = true
		return done(0, 0)
	case unix.SYS_SETGID:
		setArgs("%d", A[0])
		if !p.capEff && uint32(A[0]) != p.gid {
			return done(-1, syscall.EPERM)
		}
		if p.userns && !k.mapped(p.gidMap, int(A[0])) {
			return done(-1, syscall.EINVAL)
		}
		p.gid = uint32(A[0])
		return done(0, 0)
	case unix.SYS_SETUID:
		setArgs("%d", A[0])
		if !p.capEff && uint32(A[0]) != p.uid {
			return done(-1, syscall.EPERM)
		}
		if p.userns && !k.mapped(p.uidMap, int(A[0])) {
			return done(-1, syscall.EINVAL)
		}
		oldUid := p.uid
		p.uid = uint32(A[0])
		// capability fix-up when all uids go from 0 to non-zero
		if oldUid == 0 && p.uid != 0 && p.securebits&secNoSetuidFixup == 0 {
			p.capEff = false
			if p.securebits&secKeepCaps == 0 {
				p.capPrm = false
			}
		}
		return done(0, 0)
	case syscall.SYS_DUP3:
		o, n, fl := int(A[0]), int(A[1]), int(A[2])
		setArgs("%d -> %d, cloexec=%v", o, n, fl&syscall.O_CLOEXEC != 0)
		if o == n {
			return done(-1, syscall.EINVAL)
		}
		e := p.fds[o]
		if e == nil || n < 0 || n >= 20000 {
			return done(-1, syscall.EBADF)
		}
		p.install(n, e.f, fl&syscall.O_CLOEXEC != 0)
		return done(int64(n), 0)
	case syscall.SYS_FCNTL:
		fd := int(A[0])
		setArgs("%d, cmd=%d, %d", fd, A[1], A[2])
		e := p.fds[fd]
		if e == nil {
			return done(-1, syscall.EBADF)
		}
		switch A[1] {
		case syscall.F_SETFD:
			e.cloexec = A[2]&syscall.FD_CLOEXEC != 0
			return done(0, 0)
		case syscall.F_GETFD:
			if e.cloexec {
				return done(syscall.FD_CLOEXEC, 0)
			}
			return done(0, 0)
		case syscall.F_GETFL:
			return done(syscall.O_RDWR, 0)
		case syscall.F_DUPFD, syscall.F_DUPFD_CLOEXEC:
			// the lowest free number at or above the argument, as the kernel chooses it
			n := int(A[2])
			if n < 0 || n >= 20000 {
				return done(-1, syscall.EINVAL)
			}
			for p.fds[n] != nil {
				n++
			}
			p.install(n, e.f, A[1] == syscall.F_DUPFD_CLOEXEC)
			return done(int64(n), 0)
		}
		return done(-1, syscall.EINVAL)
	case syscall.SYS_SETSID:
		if p.pgid == p.pid {
			return done(-1, syscall.EPERM)
		}
		p.sid, p.pgid = p.pid, p.pid
		return done(int64(p.pid), 0)
	case syscall.SYS_IOCTL:
		setArgs("%d, %#x", A[0], A[1])
		e := p.fds[int(A[0])]
		if e == nil {
			return done(-1, syscall.EBADF)
		}
		if A[1] == syscall.TIOCSCTTY {
			if e.f.kind != "tty" {
				return done(-1, syscall.ENOTTY)
			}
			if p.sid != p.pid {
				return done(-1, syscall.EPERM)
			}
			p.ctty = true
			return done(0, 0)
		}
		return done(-1, syscall.EINVAL)
	case syscall.SYS_MOUNT:
		src, tgt, fs := cstr(A[0]), cstr(A[1]), cstr(A[2])
		setArgs("%q %q %q flags=%#x", src, tgt, fs, A[3])
		if !p.capEff || p.ns&syscall.CLONE_NEWNS == 0 {
			return done(-1, syscall.EPERM)
		}
		if strings.Contains(src, "nonexistent") || strings.Contains(tgt, "nonexistent") {
			return done(-1, syscall.ENOENT)
		}
		p.mountLog = append(p.mountLog, fmt.Sprintf("mount %s %s %s %#x", src, tgt, fs, A[3]))
		if tgt == "/" && A[3]&syscall.MS_REMOUNT != 0 && A[3]&syscall.MS_RDONLY != 0 {
			p.rootRO = true
		}
		return done(0, 0)
	case syscall.SYS_CHDIR:
		path := cstr(A[0])
		setArgs("%q", path)
		if strings.Contains(path, "nonexistent") {
			return done(-1, syscall.ENOENT)
		}
		p.cwd = path
		return done(0, 0)
	case syscall.SYS_MKDIRAT, syscall.SYS_MKNODAT:
		setArgs("%q", cstr(A[1]))
		p.mountLog = append(p.mountLog, name+" "+cstr(A[1]))
		return done(0, 0)
	case syscall.SYS_NEWFSTATAT:
		// what sits at a mount target that exists already: a directory or a regular file (nothing is planted in
		// the stub's file system; planted links are world K's, C05)
		setArgs("%q", cstr(A[1]))
		fst := (*syscall.Stat_t)(unsafe.Pointer(A[2]))
		*fst = syscall.Stat_t{Mode: syscall.S_IFDIR | 0755}
		return done(0, 0)
	case syscall.SYS_STATFS:
		setArgs("%q", cstr(A[0]))
		st := (*syscall.Statfs_t)(unsafe.Pointer(A[1]))
		*st = syscall.Statfs_t{}
		st.Flags = syscall.MS_NOSUID | syscall.MS_NODEV
		return done(0, 0)
	case syscall.SYS_PIVOT_ROOT:
		setArgs("%q %q", cstr(A[0]), cstr(A[1]))
		if !p.capEff {
			return done(-1, syscall.EPERM)
		}
		p.pivoted = true
		p.mountLog = append(p.mountLog, "pivot_root "+cstr(A[0]))
		p.cwd = "/"
		return done(0, 0)
	case syscall.SYS_UMOUNT2:
		setArgs("%q %#x", cstr(A[0]), A[1])
		p.mountLog = append(p.mountLog, "umount "+cstr(A[0]))
		return done(0, 0)
	case syscall.SYS_UNLINKAT:
		setArgs("%q", cstr(A[1]))
		p.mountLog = append(p.mountLog, "unlinkat "+cstr(A[1]))
		return done(0, 0)
	case syscall.SYS_SETHOSTNAME, syscall.SYS_SETDOMAINNAME:
		n := int(A[1])
		s := string(unsafe.Slice((*byte)(unsafe.Pointer(A[0])), n))
		setArgs("%q", s)
		if !p.capEff || p.ns&syscall.CLONE_NEWUTS == 0 {
			return done(-1, syscall.EPERM)
		}
		if n > 64 {
			return done(-1, syscall.EINVAL)
		}
		if req.trap == syscall.SYS_SETHOSTNAME {
			p.host = s
		} else {
			p.domain = s
		}
		return done(0, 0)
	case syscall.SYS_PRLIMIT64:
		res := int(A[1])
		nl := *(*syscall.Rlimit)(unsafe.Pointer(A[2]))
		setArgs("res=%d cur=%d max=%d", res, nl.Cur, nl.Max)
		if A[0] != 0 || nl.Cur > nl.Max || res < 0 || res > 15 {
			return done(-1, syscall.EINVAL)
		}
		old, ok := p.rlimits[res]
		if ok && nl.Max > old.Max && !p.capEff {
			return done(-1, syscall.EPERM)
		}
		p.rlimits[res] = nl
		return done(0, 0)
	case syscall.SYS_CAPSET:
		d := (*unix.CapUserData)(unsafe.Pointer(A[1]))
		setArgs("eff=%#x prm=%#x inh=%#x", d.Effective, d.Permitted, d.Inheritable)
		if (d.Permitted != 0 && !p.capPrm) || (d.Effective != 0 && !p.capPrm) {
			return done(-1, syscall.EPERM)
		}
		p.capEff, p.capPrm, p.capInh = d.Effective != 0, d.Permitted != 0, d.Inheritable != 0
		return done(0, 0)
	case syscall.SYS_PTRACE:
		setArgs("req=%d", A[0])
		if A[0] == syscall.PTRACE_TRACEME {
			if p.traceme {
				return done(-1, syscall.EPERM)
			}
			p.traceme = true
			return done(0, 0)
		}
		return done(-1, syscall.EINVAL)
	case syscall.SYS_KILL:
		pid, sig := int(int64(A[0])), int(A[1])
		setArgs("%d, sig=%d", pid, sig)
		t := k.procs[pid]
		if t == nil || t.reaped {
			return done(-1, syscall.ESRCH)
		}
		switch syscall.Signal(sig) {
		case syscall.SIGSTOP:
			if t.alive {
				t.stopped = true
			}
		case syscall.SIGKILL:
			k.kill(t, sig)
		}
		return done(0, 0)
	case unix.SYS_SECCOMP:
		setArgs("op=%d flags=%d", A[0], A[1])
		if !p.nnp && !p.capEff {
			return done(-1, syscall.EACCES)
		}
		if A[2] == 0 {
			return done(-1, syscall.EFAULT)
		}
		p.seccomp++
		return done(0, 0)
	case syscall.SYS_UNSHARE:
		setArgs("%#x", A[0])
		if !p.capEff {
			return done(-1, syscall.EPERM)
		}
		if A[0]&unix.CLONE_NEWCGROUP != 0 {
			p.cgroupNsLate = true
		}
		return done(0, 0)
	case unix.SYS_NANOSLEEP:
		return done(0, 0)
	case unix.SYS_EXECVE, unix.SYS_EXECVEAT:
		path, efd := "", -1
		if req.trap == unix.SYS_EXECVE {
			path = cstr(A[0])
			setArgs("%q", path)
		} else {
			efd = int(A[0])
			setArgs("fd=%d flags=%#x", efd, A[4])
			e := p.fds[efd]
			if e == nil {
				return done(-1, syscall.EBADF)
			}
			if e.f.kind != "file" || !strings.HasPrefix(e.f.label, "exe") {
				return done(-1, syscall.EACCES)
			}
		}
		if k.execBusy > 0 {
			k.execBusy--
			return done(-1, syscall.ETXTBSY)
		}
		if k.execErrno != 0 {
			return done(-1, k.execErrno)
		}
		// successful exec
		s := &ksnap{fds: map[int]int{}, fdLabels: map[int]string{}, uid: p.uid, gid: p.gid, groups: append([]uint32(nil), p.groups...),
			nnp: p.nnp, seccomp: p.seccomp, sidIsPid: p.sid == p.pid, cwd: p.cwd, host: p.host, domain: p.domain,
			rlimits: map[int]syscall.Rlimit{}, ns: p.ns, cgroupNs: p.ns&unix.CLONE_NEWCGROUP != 0 || p.cgroupNsLate,
			mountLog: append([]string(nil), p.mountLog...), pivoted: p.pivoted, rootRO: p.rootRO, execPath: path, execFd: efd,
			traceme: p.traceme, ctty: p.ctty, sysIndex: k.sysIdx - 1, cgroup: -1}
		if efd >= 0 {
			s.execFile = p.fds[efd].f.id
		}
		if p.cgroupFile != nil {
			s.cgroup = p.cgroupFile.id
		}
		for r, l := range p.rlimits {
			s.rlimits[r] = l
		}
		// exec capability transformation (no file capabilities, no ambient set)
		s.noroot = p.securebits&secNoRoot != 0
		rootGain := (p.uid == 0) && !s.noroot && !p.nnp
		if p.uid == 0 && !s.noroot {
			rootGain = true // permitted = inheritable | bounding for root unless SECURE_NOROOT
		}
		s.capsEmpty = !rootGain && !(p.capInh) // inheritable without file caps yields nothing; kept for strictness
		if !rootGain {
			s.capsEmpty = true
		}
		for fd, e := range p.fds {
			if e.cloexec {
				p.closeFd(fd)
				continue
			}
			s.fds[fd] = e.f.id
			s.fdLabels[fd] = e.f.label
		}
		p.execed = true
		p.snap = s
		k.evExec = k.sysIdx - 1
		k.end(idx, 0, 0, false)
		runtime.Goexit()
	case syscall.SYS_EXIT:
		setArgs("%d", A[0])
		p.alive = false
		p.zombie = true
		p.exitVal = int(A[0]) & 0xff
		p.closeAll()
		k.end(idx, 0, 0, false)
		runtime.Goexit()
	case syscall.SYS_WAIT4:
		pid := int(int64(A[0]))
		setArgs("%d", pid)
		t := k.procs[pid]
		if t == nil || t.reaped || t.parent != p {
			return done(-1, syscall.ECHILD)
		}
		t.reaped = true
		t.zombie = false
		if A[1] != 0 {
			ws := (*syscall.WaitStatus)(unsafe.Pointer(A[1]))
			if t.exitSig != 0 {
				*ws = syscall.WaitStatus(uint32(t.exitSig))
			} else {
				*ws = syscall.WaitStatus(uint32(t.exitVal) << 8)
			}
		}
		return done(int64(pid), 0)
	}
	setArgs("unmodelled system call %d", req.trap)
	return done(-1, syscall.ENOSYS)
}

func (k *simk) mapped(m string, id int) bool {
	for _, line := range strings.Split(m, "\n") {
		var in, out, n int
		if c, _ := fmt.Sscanf(line, "%d %d %d", &in, &out, &n); c == 3 && id >= in && id < in+n {
			return true
		}
	}
	return false
}

// procWrite applies a write to /proc/<pid>/{uid_map,gid_map,setgroups}.
func (k *simk) procWrite(f *kfile, data string) (int64, syscall.Errno) {
	var pid int
	var what string
	parts := strings.Split(f.label, "/")
	fmt.Sscanf(parts[0], "%d", &pid)
	what = parts[1]
	t := k.procs[pid]
	if t == nil || !t.alive {
		return -1, syscall.ESRCH
	}
	if !t.userns {
		return -1, syscall.EPERM
	}
	switch what {
	case "uid_map":
		if t.uidMap != "" {
			return -1, syscall.EPERM
		}
		if strings.Contains(data, "4294967295") {
			return -1, syscall.EINVAL
		}
		t.uidMap = data
		if k.mapped(data, 0) || true {
			// ids of the process are translated through the map; the launch protocol maps the caller to 0 or leaves it unmapped
		}
	case "gid_map":
		if t.gidMap != "" {
			return -1, syscall.EPERM
		}
		if k.parent.unprivilegedUser && t.setgroups != "deny" {
			return -1, syscall.EPERM
		}
		t.gidMap = data
	case "setgroups":
		if t.gidMap != "" && data != t.setgroups {
			return -1, syscall.EPERM
		}
		t.setgroups = data
	default:
		return -1, syscall.ENOENT
	}
	return int64(len(data)), 0
}

// renderTrace returns the system call trace in global order.
func (k *simk) renderTrace() []string {
	var out []string
	for _, t := range k.trace {
		s := fmt.Sprintf("%3d %-13s #%-2d %s(%s)", t.idx, t.actor, t.ord, t.name, t.args)
		if t.errno != 0 {
			s += " = -" + t.errno.Error()
		} else {
			s += fmt.Sprintf(" = %d", t.ret)
		}
		if t.fault {
			s += "   <== injected"
		}
		out = append(out, s)
	}
	return out
}

func sortedFds(m map[int]int) []int {
	var k []int
	for fd := range m {
		k = append(k, fd)
	}
	sort.Ints(k)
	return k
}
