//go:build verif && !verifs2

package sim

import (
	"context"
	"fmt"
	"os"
	"path/filepath"
	"sort"
	"strconv"
	"strings"
	"syscall"
	"time"

	"github.com/criyle/go-sandbox/container"
	"github.com/criyle/go-sandbox/pkg/mount"
	"github.com/criyle/go-sandbox/runner"
	"github.com/criyle/go-sandbox/zverif/vcore"
	"golang.org/x/sys/unix"
)

// C05: FS confinement. The probe looks around from inside the new root; the harness reads the
// program's mountinfo from outside while the child is parked at the sync gate.

type c05ent struct {
	kind   string // binddir bindfile tmpfs proc missing
	target string
	ro     bool
	source string
	flagFS bool // source lives on a nosuid,nodev,noexec file system
	// a read-only file bind nested in a writable directory bind ("coverfile"): what an earlier tenant of the reused
	// host directory may have left under the target's name
	planted string // "", "link" (a link to a decoy file next to it)
	parent  string // source directory of the writable bind the cover sits in
}

var c05FlagFS string

func c05Init(dir, tier string) error {
	if err := kInit(dir, tier); err != nil {
		return err
	}
	c05FlagFS = filepath.Join(dir, "flagfs")
	os.MkdirAll(c05FlagFS, 0755)
	if err := syscall.Mount("tmpfs", c05FlagFS, "tmpfs", syscall.MS_NOSUID|syscall.MS_NODEV|syscall.MS_NOEXEC, ""); err != nil {
		return fmt.Errorf("flagfs: %w", err)
	}
	return nil
}

// mountLines: the lines of a mountinfo text that mention the path
func mountLines(mountinfo, t string) string {
	var ls []string
	for _, l := range strings.Split(mountinfo, "\n") {
		if strings.Contains(l, strings.SplitN(strings.TrimPrefix(t, "/"), "/", 2)[0]) {
			f := strings.Fields(l)
			if len(f) > 5 {
				ls = append(ls, f[3]+" on "+f[4]+" "+f[5])
			}
		}
	}
	return strings.Join(ls, " | ")
}

func c05Run(c *vcore.Ctx) *vcore.Violation {
	const prop = "C05"
	src := c.Src
	impl := src.Pick("impl", "unshare", "container")
	base, err := os.MkdirTemp(kDir, "c05")
	if err != nil {
		vcore.Harnessf("mkdtemp: %v", err)
	}
	defer os.RemoveAll(base)
	os.Chmod(base, 0755)
	root := filepath.Join(base, "root")
	os.Mkdir(root, 0755)
	secret := filepath.Join(base, "host-secret")
	os.WriteFile(secret, []byte("secret"), 0644)

	var ents []c05ent
	n := 1 + src.Int(5, "nents")
	haveProc := false
	var tmpfsTargets []string
	var coverDirs []int // indices of read-only directory covers (rebuild shape)
	for i := 0; i < n; i++ {
		k := src.Pick("kind", "binddir", "binddir", "bindfile", "tmpfs", "proc", "missing", "nested", "coverfile", "coverdir")
		e := c05ent{kind: k, target: fmt.Sprintf("m%d", i), ro: src.Bool(1, 2, "ro")}
		srcBase := base
		if src.Bool(1, 3, "flagfs") {
			srcBase, e.flagFS = c05FlagFS, true
		}
		switch k {
		case "binddir":
			e.source = filepath.Join(srcBase, fmt.Sprintf("src%d-%d", i, src.Int(1000000, "uniq")))
			os.MkdirAll(e.source, 0777)
			os.WriteFile(filepath.Join(e.source, "marker"), []byte("m"), 0644)
		case "bindfile":
			e.source = filepath.Join(srcBase, fmt.Sprintf("srcf%d-%d", i, src.Int(1000000, "uniq")))
			os.WriteFile(e.source, []byte("file"), 0666)
		case "tmpfs":
			e.ro = false
			tmpfsTargets = append(tmpfsTargets, e.target)
		case "proc":
			if haveProc {
				e.kind, e.ro = "tmpfs", false
				tmpfsTargets = append(tmpfsTargets, e.target)
			} else {
				e.target = "proc"
				haveProc = true
			}
		case "missing":
			e.source = filepath.Join(base, "does-not-exist")
		case "coverfile", "coverdir":
			// a read-only cover over part of a writable directory bind of a host directory
			var parent *c05ent
			for j := range ents {
				if ents[j].kind == "binddir" && !ents[j].ro && !ents[j].flagFS && !strings.Contains(ents[j].target, "/") {
					parent = &ents[j]
				}
			}
			if parent == nil {
				e.kind, e.ro = "tmpfs", false
				tmpfsTargets = append(tmpfsTargets, e.target)
				break
			}
			e.ro, e.flagFS, e.parent = true, false, parent.source
			if k == "coverdir" {
				e.kind = "binddir"
				e.target = parent.target + fmt.Sprintf("/cases%d", i)
				e.source = filepath.Join(base, fmt.Sprintf("srcc%d-%d", i, src.Int(1000000, "uniq")))
				os.MkdirAll(e.source, 0777)
				os.WriteFile(filepath.Join(e.source, "marker"), []byte("m"), 0644)
				coverDirs = append(coverDirs, len(ents))
				break
			}
			e.target = parent.target + fmt.Sprintf("/answers%d", i)
			e.source = filepath.Join(base, fmt.Sprintf("srca%d-%d", i, src.Int(1000000, "uniq")))
			os.WriteFile(e.source, []byte("file"), 0666)
			if src.Bool(1, 2, "planted_at_cover") {
				e.planted = "link"
				os.WriteFile(filepath.Join(parent.source, fmt.Sprintf("decoy%d", i)), []byte("decoy"), 0666)
				os.Symlink(fmt.Sprintf("decoy%d", i), filepath.Join(parent.source, fmt.Sprintf("answers%d", i)))
			}
		case "nested":
			if len(tmpfsTargets) == 0 {
				e.kind, e.ro = "tmpfs", false
				tmpfsTargets = append(tmpfsTargets, e.target)
			} else {
				e.kind = "binddir"
				e.target = tmpfsTargets[src.Int(len(tmpfsTargets), "nestin")] + fmt.Sprintf("/sub%d", i)
				e.source = filepath.Join(srcBase, fmt.Sprintf("srcn%d-%d", i, src.Int(1000000, "uniq")))
				os.MkdirAll(e.source, 0777)
			}
		}
		ents = append(ents, e)
	}
	defer func() {
		for _, e := range ents {
			if e.flagFS && e.source != "" {
				os.RemoveAll(e.source)
			}
		}
	}()
	mb := mount.NewBuilder().WithBind(filepath.Dir(probePath), "probe", true)
	// a root without /dev/null: file masks are bind mounts of it, so they cannot be applied - the build must
	// say so, not hand out a container whose masks are silently missing
	noDevNull := impl == "container" && src.Bool(1, 4, "root_without_devnull")
	if impl == "container" {
		mb = mb.WithTmpfs("w", "")
		if !noDevNull {
			mb = mb.WithBind("/dev/null", "dev/null", false)
		} else {
			c.Event("root_without_devnull")
		}
	}
	for _, e := range ents {
		switch e.kind {
		case "binddir", "bindfile", "missing", "coverfile":
			mb = mb.WithBind(e.source, e.target, e.ro)
		case "tmpfs":
			mb = mb.WithTmpfs(e.target, src.Pick("tmpfsdata", "", "size=1m"))
		case "proc":
			mb = mb.WithProcRW(!e.ro)
		}
		c.Event(fmt.Sprintf("%s:%v:%v", e.kind, e.ro, e.flagFS))
	}
	mb = mb.FilterNotExist()
	var desc []string
	for _, e := range ents {
		desc = append(desc, fmt.Sprintf("%s %s ro=%v flagfs=%v", e.kind, e.target, e.ro, e.flagFS))
	}
	c.Logf("impl=%s mounts: %s", impl, strings.Join(desc, "; "))
	c.MarkNonTrivial()

	// script run inside
	probeIn := "/probe/" + filepath.Base(probePath)
	script := []string{"fds", "24", "ls", "/", "mods", "/", "ls", "/old_root", "statfs", "/"} // (descriptors first, before the script opens any itself)
	for _, e := range ents {
		t := "/" + e.target
		switch e.kind {
		case "binddir", "tmpfs":
			script = append(script, "statfs", t, "mods", t)
		case "bindfile":
			script = append(script, "statfs", t, "sys", "2", "s:"+t, "1", "0", "0", "0", "0")
		case "coverfile":
			// remove the name, write a file of one's own there: the name is a read-only mount
			script = append(script, "sys", "87", "s:"+t, "0", "0", "0", "0", "0", "grow", t, "6")
		case "proc":
			script = append(script, "statfs", t, "cat", "/proc/kcore", "cat", "/proc/self/status")
		}
	}
	for _, e := range ents {
		if impl == "container" && e.kind == "binddir" && !strings.Contains(e.target, "/") {
			script = append(script, "ls", "/"+e.target+"/maskdir", "mods", "/"+e.target+"/maskdir", "cat", "/"+e.target+"/maskfile")
			break
		}
	}
	script = append(script, "sys", "80", "s:/..", "0", "0", "0", "0", "0", "ls", ".", "cat", secret, "exit", "0")
	// the hosting process may hold descriptors it never marked close-on-exec (inherited from a service
	// manager, opened by a C library): a directory of the host, a file, a pipe. None of them may reach the
	// program: a directory descriptor is a way out of any root
	var heldFds []int
	// (in the container: there the library itself marks everything its init inherited close-on-exec; with a
	// bare forkexec launch the caller's own descriptors are the caller's business)
	if impl == "container" && src.Bool(1, 2, "host_holds_inheritable_descriptors") {
		for _, p := range []string{base, secret} {
			if fd, err := unix.Open(p, unix.O_RDONLY, 0); err == nil { // (no O_CLOEXEC)
				heldFds = append(heldFds, fd)
			}
		}
		c.Event("inheritable_host_descriptors")
		defer func() {
			for _, fd := range heldFds {
				unix.Close(fd)
			}
		}()
	}

	var res runner.Result
	var out *kOut
	var mountinfo string
	maskedIn := ""
	sync := func(pid int) error {
		b, _ := os.ReadFile(fmt.Sprintf("/proc/%d/mountinfo", pid))
		mountinfo = string(b)
		return nil
	}
	ok := watchdog(60*time.Second, func() {
		if impl == "unshare" {
			mounts, err := mb.Build()
			if err != nil {
				vcore.Harnessf("mount build: %v", err)
			}
			res, out = kRunUnshare(context.Background(), &kOpts{script: script, root: root, mounts: mounts, syncFunc: sync, argv0: probeIn})
		} else {
			b := container.Builder{Root: root, Mounts: mb.Mounts}
			if src.Bool(1, 3, "initcmd") {
				// an init command (run once inside the finished root) must not change what the programs see
				b.InitCommand = []string{probeIn, "exit", "0"}
				c.Event("initcmd")
				desc = append(desc, "init command")
			}
			// custom masks: a directory and a file inside the first directory bind must reveal nothing and accept nothing
			for _, e := range ents {
				if e.kind == "binddir" && !strings.Contains(e.target, "/") {
					os.MkdirAll(filepath.Join(e.source, "maskdir", "inner"), 0777)
					os.WriteFile(filepath.Join(e.source, "maskfile"), []byte("host content"), 0666)
					b.MaskPaths = []string{"/" + e.target + "/maskdir", "/" + e.target + "/maskfile", "/proc/kcore", "/proc/acpi"}
					maskedIn = "/" + e.target
					break
				}
			}
			if len(coverDirs) > 0 && src.Bool(1, 2, "rebuild_from_same_builder") {
				// one Builder serves several Builds: at the first one the source of a cover is not there yet (the
				// build fails, or goes on without it), at the second it is - and the environment judged below is
				// the second one
				e := ents[coverDirs[0]]
				c.Event("rebuild")
				c.Fault("first_build_without_a_source")
				if os.Rename(e.source, e.source+".away") == nil {
					if env0, err0 := kBuildRetry(&b); err0 == nil {
						env0.Destroy()
					}
					os.Rename(e.source+".away", e.source)
				}
			}
			env, err := kBuildRetry(&b)
			if err != nil {
				res = runner.Result{Status: runner.StatusRunnerError, Error: "container build: " + err.Error()}
				return
			}
			defer env.Destroy()
			ct := &kContainer{env: env, probe: probeIn}
			res, out = ct.exec(context.Background(), &kExec{script: script, syncFunc: sync})
		}
	})
	if !ok {
		return vcore.Violate(prop, "hang", impl, "run did not return")
	}
	if noDevNull && res.Status == runner.StatusRunnerError && strings.HasPrefix(res.Error, "container build:") {
		// refused (the masks cannot be applied, or the init command cannot get its standard streams): fine
		c.Probe("build_refused_masks_without_devnull")
		return nil
	}
	anyPlanted := false
	for _, e := range ents {
		anyPlanted = anyPlanted || e.planted != ""
	}
	if anyPlanted && res.Status == runner.StatusRunnerError {
		// something that is not a regular file sits at the target of a file mount: refusing the root is fine
		c.Probe("build_refused_object_at_mount_target")
		return nil
	}
	if res.Status != runner.StatusNormal {
		return vcore.Violate(prop, "launch_failed", impl, "the configured root could not be entered: %s %s (mounts: %s)", statusName(res.Status), res.Error, strings.Join(desc, "; "))
	}
	lines := out.Lines()
	// 0. no descriptor beyond the three standard streams is open in the program
	for _, l := range out.find("fd ") {
		f := strings.Fields(l)
		if len(f) >= 3 && f[2] != "closed" {
			if fd, _ := strconv.Atoi(f[1]); fd > 2 {
				return vcore.Violate(prop, "host_descriptor_reachable", impl, "descriptor %d is open in the program (%s) although none was passed (descriptors the hosting process held without close-on-exec: %v): the host is reachable through it", fd, l, heldFds)
			}
		}
	}
	// 1. the root lists exactly the configured top-level names
	want := map[string]bool{"probe": true}
	if impl == "container" {
		want["w"] = true
		want["dev"] = true // default symbolic links /dev/fd, /dev/stdin ...
	}
	for _, e := range ents {
		if e.kind == "missing" {
			continue
		}
		want[strings.SplitN(e.target, "/", 2)[0]] = true
	}
	got := map[string]bool{}
	section := ""
	for _, l := range lines {
		if strings.HasPrefix(l, "ls ") {
			section = strings.Fields(l)[1]
		}
		if strings.HasPrefix(l, "ent ") && section == "/" {
			got[strings.SplitN(l, " ", 3)[2]] = true
		}
		if l == "endls" {
			section = ""
		}
	}
	var extra, missing []string
	for k := range got {
		if !want[k] {
			extra = append(extra, k)
		}
	}
	for k := range want {
		if !got[k] {
			missing = append(missing, k)
		}
	}
	sort.Strings(extra)
	sort.Strings(missing)
	if len(extra) > 0 {
		return vcore.Violate(prop, "root_has_extra_entries", impl, "the root lists %v which are not configured", extra)
	}
	if len(missing) > 0 {
		return vcore.Violate(prop, "root_misses_entries", impl, "configured mount points %v are not in the root", missing)
	}
	// 2. write attempts
	mods := map[string]map[string]int{}
	for _, l := range lines {
		if strings.HasPrefix(l, "mods ") {
			f := strings.Fields(l)
			m := map[string]int{}
			for _, kv := range f[2:] {
				p := strings.SplitN(kv, "=", 2)
				v, _ := strconv.Atoi(p[1])
				m[p[0]] = v
			}
			mods[f[1]] = m
		}
	}
	erofs := -int(syscall.EROFS)
	if m := mods["/"]; m == nil || m["creat"] != erofs || m["mkdir"] != erofs || m["chmod"] != erofs {
		return vcore.Violate(prop, "root_writable", impl, "modifications of / : %v (expected all %d)", m, erofs)
	}
	statfs := map[string][2]int64{}
	for _, l := range lines {
		if strings.HasPrefix(l, "statfs ") {
			f := strings.Fields(l)
			r, _ := strconv.ParseInt(f[2], 10, 64)
			fl, _ := strconv.ParseInt(strings.TrimPrefix(f[4], "0x"), 16, 64)
			statfs[f[1]] = [2]int64{r, fl}
		}
	}
	if st := statfs["/"]; st[0] != 0 || st[1]&1 == 0 {
		return vcore.Violate(prop, "root_writable", impl+"/statfs", "statfs(/) = %v: not read-only", st)
	}
	rets := out.rets()
	ri := 0
	for _, e := range ents {
		t := "/" + e.target
		switch e.kind {
		case "binddir", "tmpfs":
			m := mods[t]
			if m == nil {
				return vcore.Violate(prop, "mount_missing", impl+"/"+e.kind, "no report for %s", t)
			}
			if e.ro {
				if m["creat"] != erofs || m["mkdir"] != erofs || m["chmod"] != erofs {
					return vcore.Violate(prop, "readonly_mount_writable", impl+"/"+e.kind, "read-only mount %s accepted modifications: %v", t, m)
				}
				if st := statfs[t]; st[1]&1 == 0 {
					return vcore.Violate(prop, "readonly_mount_writable", impl+"/statfs", "statfs(%s) flags %#x lack ST_RDONLY", t, st[1])
				}
			} else if m["creat"] != 0 || m["write"] != 0 || m["mkdir"] != 0 {
				return vcore.Violate(prop, "writable_mount_refuses", impl+"/"+e.kind, "mount %s declared writable refused modifications: %v", t, m)
			}
		case "bindfile":
			if ri >= len(rets) {
				return vcore.Violate(prop, "mount_missing", impl+"/bindfile", "no report for %s", t)
			}
			r := rets[ri]
			ri++
			if e.ro && r >= 0 {
				return vcore.Violate(prop, "readonly_mount_writable", impl+"/bindfile", "read-only file mount %s could be opened for writing", t)
			}
			if !e.ro && r < 0 {
				return vcore.Violate(prop, "writable_mount_refuses", impl+"/bindfile", "writable file mount %s: open for writing failed with %d", t, r)
			}
		case "coverfile":
			if ri >= len(rets) {
				return vcore.Violate(prop, "mount_missing", impl+"/coverfile", "no report for %s", t)
			}
			r := rets[ri]
			ri++
			if r >= 0 {
				return vcore.Violate(prop, "readonly_mount_writable", impl+"/coverfile", "the name of the read-only file mount %s could be removed from its (writable) directory (unlink returned %d; results %v; %v; mount table of the program: %s)", t, r, rets, out.find("grew "), mountLines(mountinfo, t))
			}
			if b, _ := os.ReadFile(e.source); string(b) != "file" {
				return vcore.Violate(prop, "readonly_mount_writable", impl+"/coverfile", "the source of the read-only file mount %s now holds %q", t, b)
			}
			name := filepath.Join(e.parent, filepath.Base(e.target))
			if e.planted == "link" {
				fi, err := os.Lstat(name)
				if err != nil || fi.Mode()&os.ModeSymlink == 0 {
					return vcore.Violate(prop, "readonly_mount_writable", impl+"/coverfile_planted", "a link sat at the target of the read-only file mount %s; after the run the host directory has %v there (%v): the program replaced the name the mount was declared for", t, fi, err)
				}
				if b, _ := os.ReadFile(filepath.Join(e.parent, strings.Replace(filepath.Base(e.target), "answers", "decoy", 1))); string(b) != "decoy" {
					return vcore.Violate(prop, "host_file_modified", impl+"/coverfile_planted", "the file the planted link leads to now holds %q", b)
				}
			} else if b, err := os.ReadFile(name); err != nil || len(b) != 0 {
				// the mount point made for the file mount: an empty file of the host directory
				return vcore.Violate(prop, "readonly_mount_writable", impl+"/coverfile", "the host's mount point file for %s now holds %q (%v)", t, b, err)
			}
		case "proc":
			if st := statfs[t]; e.ro && st[1]&1 == 0 {
				return vcore.Violate(prop, "readonly_mount_writable", impl+"/proc", "statfs(/proc) flags %#x lack ST_RDONLY", st[1])
			}
		}
	}
	// 3. nothing of the host: old root gone, '..' of / is /, host paths unreachable, kcore masked
	for _, l := range lines {
		if strings.HasPrefix(l, "ls /old_root ") && !strings.Contains(l, "err -2") {
			return vcore.Violate(prop, "old_root_reachable", impl, "%s", l)
		}
		if strings.HasPrefix(l, "cat "+secret) && !strings.HasSuffix(l, " -2") {
			return vcore.Violate(prop, "host_file_reachable", impl, "%s", l)
		}
		if impl == "container" && strings.HasPrefix(l, "cat /proc/kcore ") {
			f := strings.Fields(l)
			if v, _ := strconv.Atoi(f[2]); v > 0 {
				return vcore.Violate(prop, "masked_path_readable", impl, "/proc/kcore is readable (%d bytes) inside the container", v)
			}
		}
	}
	if maskedIn != "" {
		section = ""
		for _, l := range lines {
			if strings.HasPrefix(l, "ls "+maskedIn+"/maskdir") {
				section = "mask"
			}
			if strings.HasPrefix(l, "ent ") && section == "mask" {
				return vcore.Violate(prop, "masked_path_readable", impl+"/dir", "the masked directory %s/maskdir lists %q", maskedIn, l)
			}
			if l == "endls" {
				section = ""
			}
			if strings.HasPrefix(l, "cat "+maskedIn+"/maskfile ") {
				f := strings.Fields(l)
				if v, _ := strconv.Atoi(f[2]); v > 0 {
					return vcore.Violate(prop, "masked_path_readable", impl+"/file", "the masked file %s/maskfile yields %d bytes", maskedIn, v)
				}
			}
		}
		if m := mods[maskedIn+"/maskdir"]; m != nil && (m["creat"] == 0 || m["mkdir"] == 0) {
			return vcore.Violate(prop, "masked_path_writable", impl, "the masked directory %s/maskdir accepts modifications: %v", maskedIn, m)
		}
	}
	// after chdir("/..") the listing of "." is the root again
	afterDot := map[string]bool{}
	section = ""
	for _, l := range lines {
		if strings.HasPrefix(l, "ls . ") {
			section = "."
		}
		if strings.HasPrefix(l, "ent ") && section == "." {
			afterDot[strings.SplitN(l, " ", 3)[2]] = true
		}
		if l == "endls" {
			section = ""
		}
	}
	for k := range afterDot {
		if !want[k] {
			return vcore.Violate(prop, "escape_via_dotdot", impl, "after chdir(\"/..\") the program sees %q", k)
		}
	}
	// 4. from outside: the mount table of the program holds only declared mounts (+ masks), with the declared read-only bits
	if mountinfo != "" {
		declared := map[string]bool{"/": true, "/probe": true}
		roWant := map[string]bool{"/": true, "/probe": true}
		if impl == "container" {
			declared["/w"] = true
			declared["/dev/null"] = true
		}
		for _, e := range ents {
			if e.kind == "missing" {
				continue
			}
			declared["/"+e.target] = true
			roWant["/"+e.target] = e.ro
		}
		for _, l := range strings.Split(strings.TrimSpace(mountinfo), "\n") {
			f := strings.Fields(l)
			if len(f) < 6 {
				continue
			}
			mp, opts := f[4], f[5]
			masked := strings.HasPrefix(mp, "/proc/") || strings.HasPrefix(mp, "/sys/") || strings.HasPrefix(mp, "/usr/lib/wsl") ||
				(maskedIn != "" && strings.HasPrefix(mp, maskedIn+"/mask"))
			if !declared[mp] && !masked {
				return vcore.Violate(prop, "undeclared_mount", impl, "the program's mount table contains %s (%s)", mp, l)
			}
			if ro, ok := roWant[mp]; ok && ro && !strings.HasPrefix(opts, "ro") {
				return vcore.Violate(prop, "readonly_mount_writable", impl+"/mountinfo", "mount %s is declared read-only but mounted %q", mp, opts)
			}
		}
	} else {
		c.Probe("no_mountinfo")
	}
	return nil
}

func init() {
	register(&vcore.Prop{
		ID: "C05", Level: "exploration", Worlds: "K",
		Rule:       "one run = one mount table of 1..5 entries (bind of a directory or a single file read-only/read-write, tmpfs with/without size data, proc ro/rw, a bind nested inside a tmpfs, a non-existent bind source that must be filtered; sources optionally on a nosuid,nodev,noexec file system so that the flag-preserving remount matters) entered through the namespace runner (raw in-child mount sequence) or a freshly built container (in-init sequence with symlinks and masks); the probe lists /, attempts create/write/unlink/mkdir/chmod on / and on every mount, reads statfs flags, looks for old_root, goes to '/..', reads a host file and /proc/kcore; the harness reads the program's mountinfo from outside at the sync gate. distinct = hash of the entry (kind, ro, flag-fs) sequence; all runs non-trivial. The schedule dimension is degenerate for this property",
		Components: kComponents, Assumptions: kAssume, NeedNS: true,
		Quick:    vcore.Budget{Wall: 30 * time.Second, Shards: 16},
		Thorough: vcore.Budget{Wall: 10 * time.Minute, Shards: 16},
		Init:     c05Init, Run: c05Run, StallLimit: 150 * time.Second,
	})
}
