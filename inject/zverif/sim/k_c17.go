//go:build verif && !verifs2

package sim

import (
	"os/exec"
	"context"
	"fmt"
	"os"
	"strconv"
	"strings"
	"sync"
	"syscall"
	"time"

	"github.com/criyle/go-sandbox/pkg/forkexec"
	"github.com/criyle/go-sandbox/ptracer"
	"github.com/criyle/go-sandbox/runner"
	"github.com/criyle/go-sandbox/zverif/vcore"
)

// C17: concurrent sandboxes in one process are independent. Every run of a batch is tagged (own
// exit value, own file on descriptor 3, own marker, own callback), the batch runs on all cores,
// and each run's result, descriptor table and callbacks are compared with what it yields alone.

type c17run struct {
	id       int
	kind     string // ptrace unshare container0 container1
	code     int
	verdict  string // for ptrace runs: none ban kill
	file     *os.File
	ino      uint64
	res      runner.Result
	out      *kOut
	syncPids []int
	consult  []string
	returned bool
	blocked  string // the callback's own work did not get done while the launch stood at its gate
}

// c17PingDuringCall: two callers on one environment - one runs a program that takes a few seconds, the other asks
// for a Ping meanwhile. Alone, the program ends with its exit value and the Ping succeeds; together they must too
// (the Ping may wait for the call; it may not take anything away from it - its deadline, for instance).
func c17PingDuringCall(c *vcore.Ctx) *vcore.Violation {
	const prop = "C17"
	ct, err := kBuildContainer(nil, nil, nil)
	if err != nil {
		vcore.Harnessf("container build: %v", err)
	}
	defer ct.destroy()
	ms := 3300 + c.Src.Int(600, "call_ms")
	after := 50 + c.Src.Int(400, "ping_after_ms")
	c.Logf("one environment: Execve of a program that runs %d ms, a second caller's Ping %d ms into it", ms, after)
	c.Event("ping_during_call")
	c.Fault("second_caller_pings_during_a_call")
	c.MarkNonTrivial()
	var res runner.Result
	var perr, perr2 error
	ok := watchdog(60*time.Second, func() {
		var wg sync.WaitGroup
		wg.Add(2)
		go func() {
			defer wg.Done()
			res, _ = ct.exec(context.Background(), &kExec{script: []string{"sleep", fmt.Sprint(ms), "exit", "7"}})
		}()
		go func() {
			defer wg.Done()
			time.Sleep(time.Duration(after) * time.Millisecond)
			perr = ct.env.Ping()
		}()
		wg.Wait()
		perr2 = ct.env.Ping()
	})
	if !ok {
		return vcore.Violate(prop, "hang", "ping_during_call", "an Execve and a concurrent Ping on one environment did not both return")
	}
	if res.Status != runner.StatusNonzeroExitStatus || res.ExitStatus != 7 {
		return vcore.Violate(prop, "wrong_result", "container/ping_during_call", "a program that runs %d ms and exits with 7 yields Nonzero Exit Status/7 alone; with a second caller's Ping %d ms into the call it returned %s/%d %q", ms, after, statusName(res.Status), res.ExitStatus, res.Error)
	}
	for _, e := range []error{perr, perr2} {
		if e != nil && strings.Contains(e.Error(), "i/o timeout") {
			// the call itself ended as it does alone; a Ping whose fixed 3 s deadline passes on an overloaded
			// machine is no verdict about independence (no property speaks about how fast an idle init answers)
			vcore.VoidRun("ping_deadline_under_load")
		}
	}
	if perr != nil || perr2 != nil {
		return vcore.Violate(prop, "wrong_result", "ping/ping_during_call", "Ping succeeds alone; asked for during another caller's Execve it returned %v (and afterwards %v)", perr, perr2)
	}
	return nil
}

func c17Run(c *vcore.Ctx) *vcore.Violation {
	const prop = "C17"
	src := c.Src
	if src.Bool(1, 6, "ping_during_call") {
		return c17PingDuringCall(c)
	}
	n := 2 + src.Int(9, "nruns")
	nEnv := 1 + src.Int(2, "nenvs")
	var envs []*kContainer
	needEnv := false
	var runs []*c17run
	usedCodes := map[int]bool{}
	for i := 0; i < n; i++ {
		r := &c17run{id: i, kind: src.Pick("kind", "ptrace", "ptrace", "unshare", "container", "container")}
		if r.kind == "container" {
			r.kind = fmt.Sprintf("container%d", src.Int(nEnv, "env"))
			needEnv = true
		}
		for {
			r.code = 1 + src.Int(250, "code")
			if !usedCodes[r.code] {
				usedCodes[r.code] = true
				break
			}
		}
		if r.kind == "ptrace" {
			r.verdict = src.Pick("verdict", "none", "none", "ban", "kill")
		}
		f, err := os.CreateTemp(c.Dir, "c17f")
		if err != nil {
			vcore.Harnessf("tempfile: %v", err)
		}
		os.Remove(f.Name())
		var st syscall.Stat_t
		syscall.Fstat(int(f.Fd()), &st)
		r.file, r.ino = f, st.Ino
		runs = append(runs, r)
		c.Event(r.kind + ":" + r.verdict)
	}
	defer func() {
		for _, r := range runs {
			r.file.Close()
		}
	}()
	if needEnv {
		for i := 0; i < nEnv; i++ {
			ct, err := kBuildContainer(nil, nil, nil)
			if err != nil {
				vcore.Harnessf("container build: %v", err)
			}
			envs = append(envs, ct)
			defer ct.destroy()
		}
	}
	var desc []string
	for _, r := range runs {
		desc = append(desc, fmt.Sprintf("%d:%s/%s->%d", r.id, r.kind, r.verdict, r.code))
	}
	c.Logf("batch of %d concurrent runs: %s", n, strings.Join(desc, " "))
	c.MarkNonTrivial()
	var pidMu sync.Mutex
	allSync := map[int]int{}
	noise := src.Bool(1, 2, "failing_launch_noise")
	rounds := 1
	if noise {
		rounds = 8 // keep the healthy runs going while the failing launches run next to them
	}
	// callbacks that do work of their own while the launch stands at its gate - start a helper process, as a
	// callback that attaches the program to something may: nothing a launch holds may be needed for that
	// (only in batches without the failing-launch noise: with six goroutines launching in a loop next to it every helper
	// process waits its turn at the fork lock, and a batch takes ten times as long)
	callbacksWork := src.Bool(1, 2, "callbacks_work") && !noise
	if callbacksWork {
		c.Event("callbacks_work")
		c.Fault("callback_starts_a_process")
	}
	var wg sync.WaitGroup
	start := make(chan struct{})
	for _, r := range runs {
		r := r
		wg.Add(1)
		go func() {
			defer wg.Done()
			<-start
			sync := func(pid int) error {
				pidMu.Lock()
				r.syncPids = append(r.syncPids, pid)
				if other, dup := allSync[pid]; dup && other != r.id && !strings.HasPrefix(r.kind, "container") && rounds == 1 {
					r.consult = append(r.consult, fmt.Sprintf("pid %d also given to run %d", pid, other))
				}
				allSync[pid] = r.id
				pidMu.Unlock()
				if callbacksWork && r.kind != "ptrace" {
					done := make(chan error, 1)
					go func() { done <- exec.Command("/bin/true").Run() }()
					select {
					case <-done:
					case <-time.After(60 * time.Second):
						pidMu.Lock()
						r.blocked = "a helper process started by the callback had not been started and reaped after 60 s"
						pidMu.Unlock()
					}
				}
				return nil
			}
			marker := fmt.Sprintf("%s/c17-marker-%d", c.Dir, r.id)
			script := []string{"fds", "24"}
			if r.kind == "ptrace" {
				// one traced call carrying this run's marker: the verdict must be this run's own
				script = append(script, "sys", "258", "-100", "s:"+marker, "0755", "0", "0", "0")
			}
			script = append(script, "exit", fmt.Sprint(r.code))
			for round := 0; round < rounds; round++ {
				if round > 0 {
					pidMu.Lock()
					r.syncPids, r.consult = nil, nil
					pidMu.Unlock()
				}
				switch {
				case r.kind == "ptrace":
					h := &recHandler{decide: func(kind, arg string, k int) ptracer.TraceAction {
						pidMu.Lock()
						r.consult = append(r.consult, arg)
						pidMu.Unlock()
						switch r.verdict {
						case "ban":
							return ptracer.TraceBan
						case "kill":
							return ptracer.TraceKill
						}
						return ptracer.TraceBan
					}}
					r.res, r.out = kRunPtrace(context.Background(), &kOpts{script: script, filter: kFilterAllowAllBut([]string{"mkdirat"}, nil), handler: h, extra: []*os.File{r.file}, syncFunc: sync})
				case r.kind == "unshare":
					r.res, r.out = kRunUnshare(context.Background(), &kOpts{script: script, extra: []*os.File{r.file}, syncFunc: sync})
				default:
					idx, _ := strconv.Atoi(strings.TrimPrefix(r.kind, "container"))
					r.res, r.out = envs[idx].exec(context.Background(), &kExec{script: script, extra: []*os.File{r.file}, syncFunc: sync})
				}
				want := runner.StatusNonzeroExitStatus
				if r.verdict == "kill" {
					want = runner.StatusDisallowedSyscall
				}
				if r.res.Status != want || len(r.out.find("fd ")) != 24 && r.verdict != "kill" {
					break // a deviation: keep it for the oracle below
				}
			}
			r.returned = true
		}()
	}
	// optionally, launches that fail in the child (missing executable) keep happening next to the batch:
	// their error paths must not disturb anybody else's descriptors
	stopNoise := make(chan struct{})
	var noiseWG sync.WaitGroup
	noiseFailures := 0
	if noise {
		c.Event("failing_launch_noise")
		c.Fault("concurrent_failing_launches")
		for g := 0; g < 6; g++ {
			noiseWG.Add(1)
			go func() {
				defer noiseWG.Done()
				<-start
				for i := 0; i < 2000; i++ {
					select {
					case <-stopNoise:
						return
					default:
					}
					// a plain launch whose exec fails: the child reports the error after the parent's sync
					fr := &forkexec.Runner{Args: []string{"/nonexistent-verif-program"}, Env: []string{"A=B"}, Files: []uintptr{nullFile().Fd(), nullFile().Fd(), nullFile().Fd()}}
					if _, err := fr.Start(); err != nil {
						pidMu.Lock()
						noiseFailures++
						pidMu.Unlock()
					}
				}
			}()
		}
	}
	// other goroutines of the host create descriptors through raw system calls the way package syscall
	// documents it: under the read side of ForkLock, close-on-exec set before the lock is released. No
	// launch may fall into such a section (that is what the write side of the lock is for)
	if src.Bool(1, 2, "raw_descriptor_noise") {
		c.Event("raw_descriptor_noise")
		c.Fault("descriptors_created_under_forklock_rlock")
		for g := 0; g < 4; g++ {
			noiseWG.Add(1)
			go func() {
				defer noiseWG.Done()
				<-start
				for i := 0; i < 100000; i++ {
					select {
					case <-stopNoise:
						return
					default:
					}
					var p [2]int
					syscall.ForkLock.RLock()
					if err := syscall.Pipe(p[:]); err != nil {
						syscall.ForkLock.RUnlock()
						return
					}
					time.Sleep(200 * time.Microsecond)
					syscall.CloseOnExec(p[0])
					syscall.CloseOnExec(p[1])
					syscall.ForkLock.RUnlock()
					syscall.Close(p[0])
					syscall.Close(p[1])
					time.Sleep(100 * time.Microsecond)
				}
			}()
		}
		if rounds == 1 {
			rounds = 4
		}
	}
	ok := watchdog(150*time.Second, func() { close(start); wg.Wait(); close(stopNoise); noiseWG.Wait() })
	if !ok {
		return vcore.Violate(prop, "hang", "batch", "a batch of %d concurrent runs did not finish", n)
	}
	for _, r := range runs {
		site := strings.TrimRight(r.kind, "0123456789")
		if r.blocked != "" {
			return vcore.Violate(prop, "callback_blocked", site, "run %d (%s) in a batch of %d: %s - the launch holds something process-wide while it waits at its gate", r.id, r.kind, n, r.blocked)
		}
		wantS, wantE := runner.StatusNonzeroExitStatus, r.code
		if r.verdict == "kill" {
			wantS, wantE = runner.StatusDisallowedSyscall, r.res.ExitStatus
		}
		if r.res.Status != wantS || r.res.ExitStatus != wantE {
			return vcore.Violate(prop, "wrong_result", site, "run %d (%s, verdict %s) alone yields %s/%d; in a batch of %d it returned %s/%d %q", r.id, r.kind, r.verdict, statusName(wantS), r.code, n, statusName(r.res.Status), r.res.ExitStatus, r.res.Error)
		}
		if len(r.syncPids) != 1 {
			return vcore.Violate(prop, "callback_count", site, "run %d: callback invoked %d times", r.id, len(r.syncPids))
		}
		for _, s := range r.consult {
			if strings.HasPrefix(s, "pid ") {
				return vcore.Violate(prop, "foreign_pid", site, "run %d: %s", r.id, s)
			}
			if !strings.HasSuffix(s, fmt.Sprintf("c17-marker-%d", r.id)) {
				return vcore.Violate(prop, "foreign_trap", site, "run %d's handler was consulted about %q (another run's call)", r.id, s)
			}
		}
		if r.kind == "ptrace" && len(r.consult) != 1 {
			return vcore.Violate(prop, "trap_lost", site, "run %d's handler was consulted %d times for its one traced call", r.id, len(r.consult))
		}
		// descriptor table: 0,1,2 and the run's own file on 3, nothing else
		fds := r.out.find("fd ")
		if len(fds) != 24 {
			if r.verdict == "kill" {
				continue
			}
			return vcore.Violate(prop, "no_report", site, "run %d reported %d descriptors", r.id, len(fds))
		}
		for _, l := range fds {
			f := strings.Fields(l)
			fd, _ := strconv.Atoi(f[1])
			closed := f[2] == "closed"
			switch {
			case fd <= 2:
				if closed {
					return vcore.Violate(prop, "descriptor_missing", site, "run %d: descriptor %d is closed", r.id, fd)
				}
			case fd == 3:
				ino, _ := strconv.ParseUint(f[3], 10, 64)
				if closed || ino != r.ino {
					return vcore.Violate(prop, "foreign_descriptor", site, "run %d: descriptor 3 is %q, expected its own file (inode %d)", r.id, l, r.ino)
				}
			default:
				if !closed {
					return vcore.Violate(prop, "leaked_descriptor", site, "run %d: descriptor %d is open in the program (%s): something of the host process or of another run leaked", r.id, fd, l)
				}
			}
		}
	}
	return nil
}

func init() {
	register(&vcore.Prop{
		ID: "C17", Level: "exploration", Worlds: "K",
		Rule:       "one run = one batch of 2..10 sandbox runs started at the same instant on all cores of one host process: ptrace runs (each with one traced call carrying its own marker and its own verdict none/ban/kill), namespace runs, and Execve calls spread over 1..2 container environments (several callers may share one environment); every run has its own exit value, its own file on descriptor 3 and its own callback. Results, handler consultations, callback pids and the probe's dump of descriptors 0..9 are compared with what the same run yields alone. distinct = hash of the batch composition; all runs non-trivial. Interleaving inside a batch is genuine parallelism (not chosen by the simulator); the oracle is timing-free",
		Components: kComponents, Assumptions: append([]string{"the interleaving of launch, wait and teardown phases inside a batch is decided by the kernel and the Go scheduler over 16 cores, not by the choice stream; the thorough tier may be built with the race detector (VERIF_RACE=1)"}, kAssume...), NeedNS: true,
		Quick:    vcore.Budget{Wall: 30 * time.Second, Shards: 6},
		Thorough: vcore.Budget{Wall: 10 * time.Minute, Shards: 6},
		Init:     kInit, Run: c17Run, StallLimit: 200 * time.Second,
	})
}
