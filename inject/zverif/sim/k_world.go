//go:build verif && !verifs2

package sim

import (
	"bufio"
	"context"
	"fmt"
	"io"
	"os"
	"path/filepath"
	"sort"
	"strconv"
	"strings"
	"sync"
	"syscall"
	"time"

	"github.com/criyle/go-sandbox/container"
	"github.com/criyle/go-sandbox/pkg/mount"
	"github.com/criyle/go-sandbox/pkg/rlimit"
	"github.com/criyle/go-sandbox/pkg/seccomp"
	"github.com/criyle/go-sandbox/pkg/seccomp/libseccomp"
	"github.com/criyle/go-sandbox/ptracer"
	"github.com/criyle/go-sandbox/runner"
	"github.com/criyle/go-sandbox/runner/ptrace"
	"github.com/criyle/go-sandbox/runner/unshare"
	"github.com/criyle/go-sandbox/zverif/vcore"
	"github.com/elastic/go-seccomp-bpf/arch"
)

// ---------------------------------------------------------------------------------------------
// World K: all of go-sandbox and the real kernel; the simulator owns the actors: the scripted
// probe program (vprobe), the caller goroutines, the recording/deciding handlers, and the
// instants pinned by rendezvous. Oracles accept every kernel-legal order.
// ---------------------------------------------------------------------------------------------

var kComponents = map[string]string{
	"go-sandbox (forkexec, ptracer, runner/ptrace, runner/unshare, container, mount, rlimit, seccomp builder)": "real",
	"Linux kernel of this VM (namespaces, ptrace, seccomp, signals, rlimits, mounts)":                          "real",
	"sandboxed program":                          "stub: vprobe, a static libc-free interpreter of simulator-generated scripts",
	"syscall policy handler (ptrace.Handler)":    "stub: recording / deciding handler driven by the choice stream",
	"caller (contexts, cancellation, callbacks)": "simulator goroutines, instants pinned by rendezvous with the probe",
}

var kAssume = []string{
	"the kernel schedules runnable processes between two rendezvous as it likes; every decision of the parties comes from the choice stream, and oracles accept all kernel-legal orders",
	"checks run as PID 2 under a reaper in private PID and mount namespaces as root (no CAP_SYS_RESOURCE in this VM)",
}

var (
	probePath   string
	kDir        string
	sysInfoOnce sync.Once
	sysByName   map[string]int
	sysNames    []string
)

func kInit(dir, tier string) error {
	probePath = os.Getenv("VERIF_PROBE")
	if _, err := os.Stat(probePath); err != nil {
		return fmt.Errorf("probe binary: %w", err)
	}
	kDir = dir
	loadSysInfo()
	// descriptors the caller holds without close-on-exec are inherited by any program (plain Unix
	// semantics, outside C06's quantifier): the harness keeps none, like a Go server would not
	for fd := 0; fd < 3; fd++ {
		syscall.CloseOnExec(fd)
	}
	// the harness's shared /dev/null is opened now, not at its first use: a history whose warm-up runs never
	// needed it (both failed before a program was started) saw it appear after its baseline - one descriptor of
	// the harness's own taken for a leak
	nullFile()
	return nil
}

// kInitUnpriv is kInit followed by dropping to an unprivileged uid. Checks whose probe issues
// path-modifying system calls that are only *meant* to be stopped by the tracer (C02, C03, C15) use it:
// should a changed tree let such a call through, it runs as nobody and cannot touch the machine.
func kInitUnpriv(dir, tier string) error {
	if err := kInit(dir, tier); err != nil {
		return err
	}
	nullFile()
	os.Chown(dir, 65534, 65534)
	if os.Getuid() == 0 {
		if err := syscall.Setgroups(nil); err != nil {
			return err
		}
		if err := syscall.Setgid(65534); err != nil {
			return err
		}
		if err := syscall.Setuid(65534); err != nil {
			return err
		}
	}
	return nil
}

func loadSysInfo() {
	sysInfoOnce.Do(func() {
		info, err := arch.GetInfo("")
		if err != nil {
			vcore.Harnessf("arch info: %v", err)
		}
		sysByName = map[string]int{}
		for n, name := range info.SyscallNumbers {
			sysByName[name] = n
			sysNames = append(sysNames, name)
		}
		sort.Strings(sysNames)
	})
}

// kFilter builds a filter with the real Builder: everything allowed except the traced names.
var filterCache sync.Map

func kFilterAllowAllBut(trace []string, kill []string) seccomp.Filter {
	key := strings.Join(trace, ",") + "|" + strings.Join(kill, ",")
	if f, ok := filterCache.Load(key); ok {
		return f.(seccomp.Filter)
	}
	f := kFilterBuild(trace, kill)
	filterCache.Store(key, f)
	return f
}

func kFilterBuild(trace []string, kill []string) seccomp.Filter {
	loadSysInfo()
	skip := map[string]bool{}
	for _, t := range trace {
		skip[t] = true
	}
	for _, t := range kill {
		skip[t] = true
	}
	var allow []string
	for _, n := range sysNames {
		if !skip[n] {
			allow = append(allow, n)
		}
	}
	b := libseccomp.Builder{Allow: allow, Trace: trace, Default: libseccomp.ActionKill}
	f, err := b.Build()
	if err != nil {
		vcore.Harnessf("filter build: %v", err)
	}
	return f
}

// kOut is the parsed report of a probe run.
type kOut struct {
	mu    sync.Mutex
	lines []string
	done  chan struct{}
}

func (o *kOut) Lines() []string {
	o.mu.Lock()
	defer o.mu.Unlock()
	return append([]string(nil), o.lines...)
}

func (o *kOut) find(prefix string) []string {
	var r []string
	for _, l := range o.Lines() {
		if strings.HasPrefix(l, prefix) {
			r = append(r, l)
		}
	}
	return r
}

// rets returns the results of the probe's "sys" operations in order.
func (o *kOut) rets() []int64 {
	var r []int64
	for _, l := range o.find("ret ") {
		f := strings.Fields(l)
		if len(f) == 3 {
			v, _ := strconv.ParseInt(f[2], 10, 64)
			r = append(r, v)
		}
	}
	return r
}

// kPipe creates the report pipe; the returned collector reads until every writer is gone.
func kPipe() (*os.File, *kOut, error) {
	r, w, err := os.Pipe()
	if err != nil {
		return nil, nil, err
	}
	o := &kOut{done: make(chan struct{})}
	go func() {
		defer close(o.done)
		defer r.Close()
		br := bufio.NewReaderSize(r, 1<<16)
		for {
			line, err := br.ReadString('\n')
			if len(line) > 0 {
				o.mu.Lock()
				o.lines = append(o.lines, strings.TrimRight(line, "\n"))
				o.mu.Unlock()
			}
			if err != nil {
				return
			}
		}
	}()
	return w, o, nil
}

func (o *kOut) wait(d time.Duration) bool {
	select {
	case <-o.done:
		return true
	case <-time.After(d):
		return false
	}
}

var devNull *os.File
var devNullOnce sync.Once

// nullFile is shared by all runs of a worker, also by concurrent ones: opened exactly once (a second
// os.File lost to the garbage collector would have its descriptor closed under the feet of whoever
// took its number).
func nullFile() *os.File {
	devNullOnce.Do(func() {
		f, err := os.OpenFile("/dev/null", os.O_RDWR, 0)
		if err != nil {
			vcore.Harnessf("open /dev/null: %v", err)
		}
		devNull = f
	})
	return devNull
}

// recHandler is a ptrace.Handler that records every consultation and decides by script.
type recHandler struct {
	mu     sync.Mutex
	calls  []recCall
	decide func(kind, arg string, n int) ptracer.TraceAction
	onCall func(kind, arg string, n int)
}

type recCall struct {
	kind string // read write stat syscall
	arg  string
	act  ptracer.TraceAction
}

func (h *recHandler) rec(kind, arg string) ptracer.TraceAction {
	h.mu.Lock()
	n := len(h.calls)
	h.mu.Unlock()
	if h.onCall != nil {
		h.onCall(kind, arg, n)
	}
	act := ptracer.TraceAllow
	if h.decide != nil {
		act = h.decide(kind, arg, n)
	}
	h.mu.Lock()
	h.calls = append(h.calls, recCall{kind, arg, act})
	h.mu.Unlock()
	return act
}
func (h *recHandler) CheckRead(s string) ptracer.TraceAction    { return h.rec("read", s) }
func (h *recHandler) CheckWrite(s string) ptracer.TraceAction   { return h.rec("write", s) }
func (h *recHandler) CheckStat(s string) ptracer.TraceAction    { return h.rec("stat", s) }
func (h *recHandler) CheckSyscall(s string) ptracer.TraceAction { return h.rec("syscall", s) }
func (h *recHandler) Calls() []recCall {
	h.mu.Lock()
	defer h.mu.Unlock()
	return append([]recCall(nil), h.calls...)
}

type kOpts struct {
	script   []string
	filter   seccomp.Filter
	handler  ptrace.Handler
	rlimits  []rlimit.RLimit
	limit    runner.Limit
	workdir  string
	extra    []*os.File // descriptors 3.. of the program
	syncFunc func(int) error
	root     string
	mounts   []mount.SyscallParams
	host     string
	domain   string
	execFile uintptr
	stdin    *os.File
	argv0    string // path of the probe as the program sees it (default: the host path)
}

func (o *kOpts) args() []string {
	a0 := probePath
	if o.argv0 != "" {
		a0 = o.argv0
	}
	return append([]string{a0}, o.script...)
}

var bigLimit = runner.Limit{TimeLimit: time.Hour, MemoryLimit: runner.Size(64 << 30)}

func (o *kOpts) files(w *os.File) []uintptr {
	in := nullFile()
	if o.stdin != nil {
		in = o.stdin
	}
	f := []uintptr{in.Fd(), w.Fd(), nullFile().Fd()}
	for _, e := range o.extra {
		f = append(f, e.Fd())
	}
	return f
}

// watchdog runs f and reports a hang when it does not finish within d of real time.
func watchdog(d time.Duration, f func()) bool {
	done := make(chan struct{})
	var pv any
	go func() {
		defer close(done)
		defer func() { pv = recover() }() // re-raised below in the caller's goroutine, where the worker can report it
		f()
	}()
	defer func() {
		if pv != nil {
			panic(pv)
		}
	}()
	tick := time.NewTicker(500 * time.Millisecond)
	defer tick.Stop()
	deadline := time.After(d)
	for {
		select {
		case <-done:
			return true
		case <-tick.C:
			vcore.Heartbeat()
		case <-deadline:
			return false
		}
	}
}

func kRunPtrace(ctx context.Context, o *kOpts) (runner.Result, *kOut) {
	w, out, err := kPipe()
	if err != nil {
		vcore.Harnessf("pipe: %v", err)
	}
	lim := o.limit
	if lim.TimeLimit == 0 {
		lim = bigLimit
	}
	r := &ptrace.Runner{ShowDetails: os.Getenv("VERIF_DEBUG_PTRACE") != "",
		Args: o.args(), Env: []string{"PATH=/bin"}, WorkDir: o.workdir,
		Files: o.files(w), RLimits: o.rlimits, Limit: lim, Seccomp: o.filter, Handler: o.handler, SyncFunc: o.syncFunc,
		ExecFile: o.execFile,
	}
	res := r.Run(ctx)
	w.Close()
	out.wait(10 * time.Second)
	return res, out
}

// kRunPtraceFiles is kRunPtrace with an explicit descriptor list (the caller collects the report).
func kRunPtraceFiles(ctx context.Context, o *kOpts, files []uintptr) (runner.Result, *kOut) {
	lim := o.limit
	if lim.TimeLimit == 0 {
		lim = bigLimit
	}
	r := &ptrace.Runner{ShowDetails: os.Getenv("VERIF_DEBUG_PTRACE") != "",
		Args: o.args(), Env: []string{"PATH=/bin"}, WorkDir: o.workdir,
		Files: files, RLimits: o.rlimits, Limit: lim, Seccomp: o.filter, Handler: o.handler, SyncFunc: o.syncFunc,
	}
	return r.Run(ctx), nil
}

func kRunUnshare(ctx context.Context, o *kOpts) (runner.Result, *kOut) {
	w, out, err := kPipe()
	if err != nil {
		vcore.Harnessf("pipe: %v", err)
	}
	lim := o.limit
	if lim.TimeLimit == 0 {
		lim = bigLimit
	}
	if o.filter == nil {
		// unshare.Runner dereferences its filter unconditionally: always give it one
		o.filter = kFilterAllowAllBut(nil, nil)
	}
	r := &unshare.Runner{
		Args: o.args(), Env: []string{"PATH=/bin"}, WorkDir: o.workdir,
		Files: o.files(w), RLimits: o.rlimits, Limit: lim, Seccomp: o.filter, SyncFunc: o.syncFunc,
		Root: o.root, Mounts: o.mounts, HostName: o.host, DomainName: o.domain, ExecFile: o.execFile,
	}
	res := r.Run(ctx)
	w.Close()
	out.wait(10 * time.Second)
	return res, out
}

// kContainer is a real container environment whose root contains the probe at /vprobe.
type kContainer struct {
	env     container.Environment
	rootDir string
	probe   string // path of the probe inside the container
	stderr  *strings.Builder
}

type lockedBuilder struct {
	mu sync.Mutex
	b  strings.Builder
}

func (l *lockedBuilder) Write(p []byte) (int, error) {
	l.mu.Lock()
	defer l.mu.Unlock()
	return l.b.Write(p)
}
func (l *lockedBuilder) String() string {
	l.mu.Lock()
	defer l.mu.Unlock()
	return l.b.String()
}

var kInitCommand []string // InitCommand for the next kBuildContainer (C16 scenario)

var kSymLinks []container.SymbolicLink // SymbolicLinks for the next kBuildContainer (C13: a configured link inside a writable mount)

// kBuildContainer builds a container with the probe's directory bind-mounted read-only at /probe.
func kBuildContainer(extraMounts func(b *mount.Builder), cred container.CredGenerator, stderr io.Writer) (*kContainer, error) {
	root, err := os.MkdirTemp(kDir, "croot")
	if err != nil {
		return nil, err
	}
	os.Chmod(root, 0755)
	mb := mount.NewBuilder().
		WithBind(filepath.Dir(probePath), "probe", true).
		WithTmpfs("w", "").
		WithTmpfs("tmp", "").
		WithBind("/dev/null", "dev/null", false).
		WithProc()
	if extraMounts != nil {
		extraMounts(mb)
	}
	b := container.Builder{Root: root, Mounts: mb.FilterNotExist().Mounts, Stderr: stderr, CredGenerator: cred, InitCommand: kInitCommand, SymbolicLinks: kSymLinks}
	env, err := kBuildRetry(&b)
	if err != nil {
		os.Remove(root)
		return nil, err
	}
	return &kContainer{env: env, rootDir: root, probe: "/probe/" + filepath.Base(probePath)}, nil
}

// kBuildRetry: Build pings the new init with a fixed 3 s real-time deadline. On a fully loaded
// machine that deadline can expire although nothing is wrong; the build is repeated, and if the
// deadline keeps expiring the run is void (no verdict), never a violation: no property speaks
// about how fast an environment comes up.
func kBuildRetry(b *container.Builder) (container.Environment, error) {
	var env container.Environment
	var err error
	for attempt := 0; attempt < 6; attempt++ {
		env, err = b.Build()
		if err == nil || !strings.Contains(err.Error(), "i/o timeout") {
			return env, err
		}
		vcore.Heartbeat()
		time.Sleep(time.Duration(200*(attempt+1)) * time.Millisecond)
	}
	vcore.VoidRun("container_build_ping_deadline")
	return nil, err
}

func (k *kContainer) destroy() {
	k.env.Destroy()
	os.Remove(k.rootDir)
}

type kExec struct {
	script    []string
	rlimits   []rlimit.RLimit
	filter    seccomp.Filter
	syncFunc  func(int) error
	syncAfter bool
	extra     []*os.File
	execFile  uintptr
	cgroupFD  uintptr
	args0     string
}

func (k *kContainer) exec(ctx context.Context, e *kExec) (runner.Result, *kOut) {
	w, out, err := kPipe()
	if err != nil {
		vcore.Harnessf("pipe: %v", err)
	}
	files := []uintptr{nullFile().Fd(), w.Fd(), nullFile().Fd()}
	for _, x := range e.extra {
		files = append(files, x.Fd())
	}
	a0 := k.probe
	if e.args0 != "" {
		a0 = e.args0
	}
	p := container.ExecveParam{Args: append([]string{a0}, e.script...), Env: []string{"PATH=/bin"}, Files: files, RLimits: e.rlimits,
		Seccomp: e.filter, SyncFunc: e.syncFunc, SyncAfterExec: e.syncAfter, ExecFile: e.execFile, CgroupFD: e.cgroupFD}
	res := k.env.Execve(ctx, p)
	w.Close()
	out.wait(10 * time.Second)
	return res, out
}

func containerInitPid(k *kContainer) int { return container.VInitPid(k.env) }

func pidAlive(pid int) bool {
	data, err := os.ReadFile(fmt.Sprintf("/proc/%d/stat", pid))
	if err != nil {
		return false
	}
	// state is the field after the parenthesised command
	s := string(data)
	i := strings.LastIndex(s, ")")
	if i < 0 || i+2 >= len(s) {
		return false
	}
	return s[i+2] != 'Z' && s[i+2] != 'X'
}

func pidExists(pid int) bool {
	_, err := os.Stat(fmt.Sprintf("/proc/%d", pid))
	return err == nil
}

func statusName(s runner.Status) string {
	if s == runner.StatusNormal {
		return "Normal"
	}
	return s.String()
}

var _ = syscall.SIGKILL
