//go:build verif && !verifs2

package sim

import (
	"time"

	"github.com/criyle/go-sandbox/zverif/vcore"
)

// Properties decided in two worlds: the in-process part (S1) and the real-process part (K).
// (This file sorts after the others so that the parts exist when it registers them.)

func mergeComponents(a, b map[string]string) map[string]string {
	m := map[string]string{}
	for k, v := range a {
		m["S1: "+k] = v
	}
	for k, v := range b {
		m["K: "+k] = v
	}
	return m
}

func init() {
	// world-K halves of the launch properties (their world-S2 halves live in the other build of the
	// harness; bin/check runs both and the second run merges its evidence into the first's)
	register(&vcore.Prop{
		ID: "C04", Level: "exploration", Worlds: "K", NeedNS: true,
		Rule:       "world K: one run = one option vector (credential, drop-caps, no-new-privs, seccomp, callback, late cgroup unshare, six clone flags, user namespace, host/domain only under a new UTS namespace, workdir, rlimits) launched for real by forkexec with the probe as target; the probe's self-report (capget, securebits, no_new_privs, seccomp mode, ids, groups, session, cwd, uname, rlimits) is compared with the request; a fifth of the runs build a real container with a drawn identity (credential generator, container uid and gid customised independently), host/domain name, work directory and optional filter, and judge the state report of a program started in it plus, from outside, the owner of a file it created",
		Components: kComponents, Assumptions: kAssume,
		Quick:    vcore.Budget{Wall: 15 * time.Second, Shards: 16},
		Thorough: vcore.Budget{Wall: 6 * time.Minute, Shards: 16},
		Init:     kInit, StallLimit: 120 * time.Second,
		Run: func(c *vcore.Ctx) *vcore.Violation {
			if c.Src.Bool(1, 5, "container_state") {
				return c04ContainerRun(c)
			}
			return cKLaunchRun("C04", true, false)(c)
		},
	})
	register(&vcore.Prop{
		ID: "C06", Level: "exploration", Worlds: "K", NeedNS: true,
		Rule:       "world K: one run = one descriptor list of 1..8 entries over {standard streams, three temporary files, the close marker} with the report pipe at a drawn position, x an option vector, launched for real; the probe dumps fstat identity and flags of descriptors 0..23, compared with the caller's list; a quarter of the runs are Execve calls on a real container (1..5 listed descriptors, with/without callback, fexecve) whose init has a host pipe as stderr: nothing unlisted may be open in the program",
		Components: kComponents, Assumptions: kAssume,
		Quick:    vcore.Budget{Wall: 15 * time.Second, Shards: 16},
		Thorough: vcore.Budget{Wall: 6 * time.Minute, Shards: 16},
		Init:     kInit, StallLimit: 120 * time.Second,
		Run: func(c *vcore.Ctx) *vcore.Violation {
			if c.Src.Bool(1, 4, "container_exec") {
				return c06ContainerRun(c)
			}
			return cKLaunchRun("C06", false, true)(c)
		},
	})
	register(&vcore.Prop{
		ID: "C07", Level: "fault_enumeration", Worlds: "K", NeedNS: true,
		Rule:       "world K: one run = one option vector with one failure induced by a real input (missing workdir, missing / garbage / non-executable target, closed descriptor in Files, failing callback, rlimit above the hard limit, host name longer than the kernel accepts); the target's marker file must not appear, the error must name the step, the caller must have no additional child process",
		Components: kComponents, Assumptions: kAssume,
		Quick:    vcore.Budget{Wall: 15 * time.Second, Shards: 16},
		Thorough: vcore.Budget{Wall: 6 * time.Minute, Shards: 16},
		Init:     kInit, Run: c07KRun, StallLimit: 120 * time.Second,
	})
	c10K := &vcore.Prop{
		ID: "C10", Level: "exploration", Worlds: "K", NeedNS: true,
		Quick:    vcore.Budget{Wall: 20 * time.Second, Shards: 16},
		Thorough: vcore.Budget{Wall: 8 * time.Minute, Shards: 16},
		Init:     kInit, Run: c10KRun, StallLimit: 120 * time.Second,
	}
	register(&vcore.Prop{
		ID: "C10", Level: "exploration", Worlds: "S1+K",
		Rule:        c10S1.Rule + " || world K: one run = a freshly built real container serving a history of 1..6 operations drawn from {Execve of a probe that exits with a unique code; Execve of a garbage ELF (exec fails after the sync ack); unknown, non-executable and text-busy executables; empty argument list; failing callback before / after exec; Ping; Reset+Open} with sync before/after exec and with/without callback, followed by a successful Execve and a Ping; failures must be errors of their call, results must carry the call's own exit code, the init must stay alive",
		Components:  mergeComponents(s1Components, kComponents),
		Assumptions: append(append([]string{}, c10S1.Assumptions...), kAssume...),
		Parts:       []*vcore.Prop{c10S1, c10K},
	})
	c11K := &vcore.Prop{
		ID: "C11", Level: "exploration", Worlds: "K", NeedNS: true,
		Quick:    vcore.Budget{Wall: 25 * time.Second, Shards: 16},
		Thorough: vcore.Budget{Wall: 10 * time.Minute, Shards: 16},
		Init:     kInit, Run: c11KRun, StallLimit: 120 * time.Second,
	}
	register(&vcore.Prop{
		ID: "C11", Level: "exploration", Worlds: "S1+K",
		Rule:        c11S1.Rule + " || world K: one run = one real run (ptrace runner, namespace runner, container) of a signal-ignoring process tree parked at a rendezvous, with the context cancelled at a pinned instant: before the start, inside the sync callback, while the program provably runs (rendezvous), while it exits (released, then cancelled after a drawn delay of 0..3 ms), with the tracer parked right after its n-th wait4, or inside a policy consultation; the run must return within 25 s with Time Limit Exceeded or the program's genuine exit, and the program must be dead",
		Components:  mergeComponents(s1Components, kComponents),
		Assumptions: append(append([]string{}, c11S1.Assumptions...), kAssume...),
		Parts:       []*vcore.Prop{c11S1, c11K},
	})
	c14K := &vcore.Prop{
		ID: "C14", Level: "exploration", Worlds: "K", NeedNS: true,
		Quick:    vcore.Budget{Wall: 20 * time.Second, Shards: 16},
		Thorough: vcore.Budget{Wall: 8 * time.Minute, Shards: 16},
		Init:     kInit, Run: c14KRun, StallLimit: 150 * time.Second,
	}
	register(&vcore.Prop{
		ID: "C14", Level: "exploration", Worlds: "S1+K",
		Rule:        c14S1.Rule + " || world K: one run = a program inside a real container plants up to six objects (file, directory, link to a file / a directory / another mount / nowhere / itself / a FIFO, FIFO, socket, mode-000 file) under the names the host is about to use; the host then issues one Open batch of 1..6 items (read/write/create/truncate, with and without MkdirAll, also below a planted object) and optionally a Symlink batch; every descriptor is compared from outside (lstat through /proc/<init>/root) with the object at the path of its index, nothing may have been created through a planted link, the batch must return within 20 s, the environment must answer a Ping afterwards",
		Components:  mergeComponents(s1Components, kComponents),
		Assumptions: append(append([]string{}, c14S1.Assumptions...), kAssume...),
		Parts:       []*vcore.Prop{c14S1, c14K},
	})
	c12K := &vcore.Prop{
		ID: "C12", Level: "exploration", Worlds: "K", NeedNS: true,
		Quick:    vcore.Budget{Wall: 25 * time.Second, Shards: 16},
		Thorough: vcore.Budget{Wall: 10 * time.Minute, Shards: 16},
		Init:     kInit, Run: c12KRun, StallLimit: 200 * time.Second,
	}
	register(&vcore.Prop{
		ID: "C12", Level: "exploration", Worlds: "S1+K",
		Rule:        c12S1.Rule + " || world K: one run = a history of 3..12 real runs in one runner (ptrace, namespace, one container, a container built and destroyed per run) of process trees (children, grandchildren, daemonised processes, threads, signals ignored) that exit, crash, are cancelled at a rendezvous, or whose launch fails; after every run each process the program reported is dead, and after the history the host's descriptors, child processes and goroutines and the container init's descriptors and children are not above the baseline taken after two warm-up runs",
		Components:  mergeComponents(s1Components, kComponents),
		Assumptions: append(append([]string{}, c12S1.Assumptions...), kAssume...),
		Parts:       []*vcore.Prop{c12S1, c12K},
	})
}
