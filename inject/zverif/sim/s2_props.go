//go:build verif && verifs2

package sim

import (
	"errors"
	"fmt"
	"reflect"
	"strings"
	"syscall"
	"time"
	"unsafe"

	"github.com/criyle/go-sandbox/pkg/forkexec"
	"github.com/criyle/go-sandbox/zverif/vcore"
	"golang.org/x/sys/unix"
)

func unsafePtr(p *syscall.WaitStatus) unsafe.Pointer { return unsafe.Pointer(p) }

var s2Components = map[string]string{
	"pkg/forkexec Start, syncWithChild, writeIDMaps, readChildErr, handleChildFailed (parent side)":                                                                                                     "real",
	"pkg/forkexec forkAndExecInChild, prepareFds, childExitError (child side)":                                                                                                                          "real, run in-process as a second actor",
	"kernel (descriptor tables, socketpair, credentials, capabilities, securebits, no_new_privs, seccomp, ptrace-me, sessions, namespaces flags, mounts log, id maps, rlimits, exec, exit, kill, wait)": "stub: simk, written from man pages; every system call is a scheduling point and a fault point",
	"scheduler (which of parent/child/reader performs its next system call)":                                                                                                                            "simulator, from the choice stream",
}

func earlyReturn(g *s2cfg) bool { return g.stopBefore || (g.seccomp && g.ptrace) }

// s2CheckState compares the exec snapshot with what the configuration asks for (C04 + C06 facts).
func s2CheckState(prop string, g *s2cfg, k0 *kproc, par map[int]int, l *s2Launch, wantC04, wantC06 bool) *vcore.Violation {
	s := l.snap
	branch := fmt.Sprintf("ptrace=%v,seccomp=%v,cgafter=%v", g.ptrace, g.seccomp, g.cgAfter)
	if wantC04 {
		if g.cred != nil || g.dropCaps {
			if !s.capsEmpty {
				return vcore.Violate(prop, "caps_not_dropped", branch, "credentials/drop-caps requested but the program starts with capabilities (vector %s)", g.vector())
			}
			if !s.noroot {
				return vcore.Violate(prop, "noroot_missing", branch, "credentials/drop-caps requested but SECURE_NOROOT is not set at exec (vector %s)", g.vector())
			}
		}
		if (g.nnp || g.seccomp) != s.nnp {
			return vcore.Violate(prop, "no_new_privs", branch, "no_new_privs=%v, requested=%v (vector %s)", s.nnp, g.nnp || g.seccomp, g.vector())
		}
		want := 0
		if g.seccomp {
			want = 1
		}
		if s.seccomp != want {
			return vcore.Violate(prop, "seccomp", branch, "%d filter(s) installed, %d requested (vector %s)", s.seccomp, want, g.vector())
		}
		if g.cred != nil {
			if s.uid != g.cred.Uid || s.gid != g.cred.Gid {
				return vcore.Violate(prop, "ids", "uidgid", "program runs as %d:%d, requested %d:%d (vector %s)", s.uid, s.gid, g.cred.Uid, g.cred.Gid, g.vector())
			}
			skipGroups := g.cred.NoSetGroups || (g.idmaps && !g.setgroupsOK && len(g.cred.Groups) == 0)
			if !skipGroups && !reflect.DeepEqual(append([]uint32{}, s.groups...), append([]uint32{}, g.cred.Groups...)) {
				return vcore.Violate(prop, "ids", "groups", "supplementary groups %v, requested %v (vector %s)", s.groups, g.cred.Groups, g.vector())
			}
		} else if s.uid != k0.uid || s.gid != k0.gid {
			return vcore.Violate(prop, "ids", "unrequested_change", "ids changed to %d:%d without a credential request", s.uid, s.gid)
		}
		if !s.sidIsPid {
			return vcore.Violate(prop, "session", "setsid", "the program is not the leader of its own session (vector %s)", g.vector())
		}
		if g.workdir != "" && s.cwd != g.workdir {
			return vcore.Violate(prop, "cwd", "workdir", "cwd %q, requested %q", s.cwd, g.workdir)
		}
		if g.host != "" && s.host != g.host {
			return vcore.Violate(prop, "hostname", "host", "host name %q, requested %q", s.host, g.host)
		}
		if g.domain != "" && s.domain != g.domain {
			return vcore.Violate(prop, "hostname", "domain", "domain name %q, requested %q", s.domain, g.domain)
		}
		if s.ns != g.flags&forkexec.UnshareFlags {
			return vcore.Violate(prop, "namespaces", "cloneflags", "new namespaces %#x, requested %#x", s.ns, g.flags)
		}
		if g.ptrace != s.traceme {
			return vcore.Violate(prop, "ptrace", branch, "traceme=%v, requested %v", s.traceme, g.ptrace)
		}
		if g.cgroupFd > 0 && s.cgroup != par[g.cgroupFd] {
			return vcore.Violate(prop, "cgroup", "clone_into_cgroup", "the program was not started in the requested cgroup")
		}
		if g.ctty && !s.ctty {
			return vcore.Violate(prop, "ctty", "ctty", "controlling terminal requested but not set")
		}
		if g.pivot {
			if !s.pivoted || !s.rootRO {
				return vcore.Violate(prop, "root", "pivot", "pivot root requested: pivoted=%v, root read-only=%v", s.pivoted, s.rootRO)
			}
			for i := 0; i < g.nMounts; i++ {
				tgt := fmt.Sprintf(" m%d ", i)
				mounted, remountRO := false, false
				for _, m := range s.mountLog {
					if strings.HasPrefix(m, "mount ") && strings.Contains(m, tgt) {
						var fl uintptr
						fmt.Sscanf(m[strings.LastIndex(m, " ")+1:], "%v", &fl)
						if fl&syscall.MS_REMOUNT == 0 {
							mounted = true
						} else if fl&syscall.MS_RDONLY != 0 && fl&syscall.MS_BIND != 0 {
							remountRO = true
						}
					}
				}
				if !mounted {
					return vcore.Violate(prop, "mount", "missing", "mount %d was not performed", i)
				}
				if g.mountRO[i] && !remountRO {
					return vcore.Violate(prop, "mount", "readonly_remount", "read-only bind mount %d was not remounted read-only", i)
				}
			}
		}
		for i := 0; i < g.nRlimits; i++ {
			res := []int{syscall.RLIMIT_CPU, syscall.RLIMIT_AS, syscall.RLIMIT_FSIZE}[i]
			want := []syscall.Rlimit{{Cur: 3, Max: 5}, {Cur: 1 << 33, Max: 1 << 33}, {Cur: 1 << 20, Max: 1 << 20}}[i]
			if s.rlimits[res] != want {
				return vcore.Violate(prop, "rlimit", fmt.Sprintf("index%d", i), "limit %d is %+v, configured %+v", res, s.rlimits[res], want)
			}
		}
	}
	if wantC06 {
		for i, v := range g.files {
			got, open := s.fds[i]
			if v == closeMarker {
				if open {
					return vcore.Violate(prop, "fd_not_closed", "close_marker", "slot %d is marked closed but is open (%s) in the program; files=%v sock=%v exec=%d", i, s.fdLabels[i], fdList(g.files), g.sockFds, g.execFile)
				}
				continue
			}
			if !open {
				return vcore.Violate(prop, "fd_missing", "listed", "descriptor %d of the program is closed, expected the caller's %d; files=%v sock=%v exec=%d cgroup=%d", i, int(v), fdList(g.files), g.sockFds, g.execFile, g.cgroupFd)
			}
			if got != par[int(v)] {
				return vcore.Violate(prop, "fd_wrong", "listed", "descriptor %d of the program is %s, expected the caller's %d; files=%v sock=%v exec=%d cgroup=%d", i, s.fdLabels[i], int(v), fdList(g.files), g.sockFds, g.execFile, g.cgroupFd)
			}
		}
		for _, fd := range sortedFds(s.fds) {
			if fd >= len(g.files) {
				what := "caller_descriptor"
				lab := s.fdLabels[fd]
				switch {
				case strings.HasPrefix(lab, "sync"):
					what = "sync_channel"
				case strings.HasPrefix(lab, "exe-"):
					what = "exec_descriptor"
				}
				for _, pfd := range g.parentFds {
					if pfd == g.cgroupFd && par[pfd] == s.fds[fd] {
						what = "cgroup_descriptor"
					}
				}
				return vcore.Violate(prop, "fd_extra", what, "descriptor %d (%s) is open in the program but not listed; files=%v sock=%v exec=%d cgroup=%d", fd, lab, fdList(g.files), g.sockFds, g.execFile, g.cgroupFd)
			}
		}
		if g.execFile > 0 {
			if s.execFd < 0 || s.execFile != par[g.execFile] {
				return vcore.Violate(prop, "exec_target", "fexecve", "the program was not executed from the caller's descriptor %d", g.execFile)
			}
		} else if s.execPath != "/bin/target" {
			return vcore.Violate(prop, "exec_target", "path", "executed %q", s.execPath)
		}
	}
	return nil
}

func fdList(f []uintptr) []int {
	var o []int
	for _, v := range f {
		if v == closeMarker {
			o = append(o, -1)
		} else {
			o = append(o, int(v))
		}
	}
	return o
}

func parentFiles(k *simk) map[int]int {
	m := map[int]int{}
	for fd, e := range k.parent.fds {
		m[fd] = e.f.id
	}
	return m
}

// s2RunFaultFree launches one configuration without faults and checks C04/C06 facts.
func s2RunFaultFree(c *vcore.Ctx, prop string, g *s2cfg, wantC04, wantC06 bool) *vcore.Violation {
	starts := 1
	if g.twice {
		starts = 2
	}
	// parent's file identities are needed by the oracle: build a throw-away kernel to read them deterministically
	ls, k0, files := s2StartWithFiles(c, g, s2plan{failAt: -1, sched: 0}, starts)
	c.Logf("config: %s files=%v caller-fds=%v sock=%v exec=%d cgroup=%d starts=%d", g.vector(), fdList(g.files), g.parentFds, g.sockFds, g.execFile, g.cgroupFd, starts)
	for i, l := range ls {
		if c.Replay {
			for _, t := range l.trace {
				c.Logf("  %s", t)
			}
		}
		if l.deadlock != "" {
			return vcore.Violate(prop, "hang", "fault_free", "start %d: %s", i, l.deadlock)
		}
		if g.syncMode == 2 {
			// failing callback: belongs to C07; here only "did not run"
			if l.snap != nil {
				return vcore.Violate(prop, "ran_despite_callback_error", "sync", "the program was executed although the callback returned an error")
			}
			continue
		}
		if l.err != nil {
			site := "first"
			if i > 0 {
				site = "second_start"
			}
			if wantC06 && i > 0 {
				return vcore.Violate(prop, "second_start_differs", "restart", "second Start of the same configuration failed: %v (first succeeded); %s", l.err, l.runnerDiff)
			}
			var ce forkexec.ChildError
			if wantC06 && errors.As(l.err, &ce) && ce.Location == forkexec.LocExecve && g.execFile > 0 {
				return vcore.Violate(prop, "exec_target", "fexecve_descriptor_lost", "fexecve failed (%v): the exec descriptor was not the caller's any more; files=%v sock=%v exec=%d", l.err, fdList(g.files), g.sockFds, g.execFile)
			}
			return vcore.Violate(prop, "launch_refused", site, "Start failed in a fault-free run: %v (vector %s)", l.err, g.vector())
		}
		if l.snap == nil {
			return vcore.Violate(prop, "no_exec", "fault_free", "Start returned pid %d but the program never reached exec (vector %s)", l.pid, g.vector())
		}
		if v := s2CheckState(prop, g, k0, files, l, wantC04, wantC06); v != nil {
			if i > 0 {
				v.Site = "second_start/" + v.Site
			}
			return v
		}
		if wantC06 && l.runnerDiff != "" {
			return vcore.Violate(prop, "runner_modified", "caller_config", "Start modified the caller's configuration: %s", l.runnerDiff)
		}
		if len(l.parentLeft) > 0 && (wantC06) {
			return vcore.Violate(prop, "parent_fd_left", "sync_channel", "after Start the caller still holds %v", l.parentLeft)
		}
		if l.gate != "" && g.syncMode == 1 {
			return vcore.Violate(prop, "gate", "order", "%s", l.gate)
		}
	}
	return nil
}

func s2StartWithFiles(c *vcore.Ctx, g *s2cfg, plan s2plan, starts int) ([]*s2Launch, *kproc, map[int]int) {
	var k0 *kproc
	var files map[int]int
	s2Hook = func(k *simk) { k0 = k.parent; files = parentFiles(k) }
	defer func() { s2Hook = nil }()
	ls := s2Start(c, g, plan, starts)
	return ls, k0, files
}

var s2Hook func(k *simk)

// ---- C07 --------------------------------------------------------------------------------------

var locAllowed = map[string][]string{
	"close": {"close_write"}, "getpid": {"getpid"}, "setgroups": {"setgroups"}, "setgid": {"setgid"}, "setuid": {"setuid"},
	"dup3": {"dup3"}, "fcntl": {"fcntl"}, "setsid": {"setsid"}, "ioctl": {"ioctl"},
	"mount": {"mount(root)", "mount(tmpfs)", "mount", "mount(readonly)", "pivot_root"}, "chdir": {"chdir", "mount(chdir)"},
	"mkdirat": {"mount(mkdir)", "pivot_root"}, "mknodat": {"mount(mkdir)"}, "statfs": {"mount"}, "pivot_root": {"pivot_root"},
	"umount2": {"pivot_root", "umount"}, "unlinkat": {"pivot_root", "unlink"}, "prlimit64": {"setrlimt"}, "capset": {"set_cap"},
	"ptrace": {"ptrace_me"}, "kill": {"stop"}, "seccomp": {"seccomp"}, "execve": {"execve"}, "execveat": {"execve"},
	"sethostname": {"sethostname"}, "setdomainname": {"setdomainname"},
	"prctl": {"keep_capability", "drop_capability", "set_no_new_privs", "ptrace_me"}, "read": {"unshare_user_read", "sync_read"}, "write": {"sync_write"},
}

// s2CheckFailure evaluates the C07 oracle on a run in which a step failed (injected or natural).
func s2CheckFailure(prop string, g *s2cfg, l *s2Launch, k0 *kproc, files map[int]int, what string, faultSys string, faultActor string, kind string, mustFail bool) *vcore.Violation {
	site := faultSys
	if site == "" {
		site = what
	}
	if l.deadlock != "" {
		return vcore.Violate(prop, "hang", site, "%s: %s", what, l.deadlock)
	}
	if !l.returned {
		return vcore.Violate(prop, "hang", site, "%s: Start never returned", what)
	}
	if l.gate != "" {
		return vcore.Violate(prop, "gate", site, "%s: %s", what, l.gate)
	}
	if l.cbCalls > 0 && l.child != nil && l.cbPid != l.child.pid {
		return vcore.Violate(prop, "callback_pid", site, "%s: callback got pid %d, the child is %d", what, l.cbPid, l.child.pid)
	}
	if l.err != nil {
		if l.snap != nil {
			return vcore.Violate(prop, "ran_but_error", site, "%s: Start returned %v although the program was executed", what, l.err)
		}
		if l.child != nil && (l.child.alive || !l.child.reaped) {
			return vcore.Violate(prop, "child_left", site, "%s: Start returned %v but the child is alive=%v reaped=%v", what, l.err, l.child.alive, l.child.reaped)
		}
		if len(l.parentLeft) > 0 {
			return vcore.Violate(prop, "parent_fd_left", site, "%s: after the failed Start the caller still holds %v", what, l.parentLeft)
		}
		if faultActor == "child" && kind == "errno" {
			var ce forkexec.ChildError
			if !errors.As(l.err, &ce) {
				return vcore.Violate(prop, "error_not_located", site, "%s: error %v (%T) does not name the failing step", what, l.err, l.err)
			}
			ok := false
			for _, n := range locAllowed[faultSys] {
				if ce.Location.String() == n {
					ok = true
				}
			}
			if !ok {
				return vcore.Violate(prop, "error_wrong_step", site, "%s: error names step %q", what, ce.Location.String())
			}
		}
		return nil
	}
	// Start reported success
	if mustFail {
		return vcore.Violate(prop, "failure_reported_as_success", site, "%s: Start returned pid %d, nil", what, l.pid)
	}
	if g.syncMode == 1 && !l.syncWritten {
		// with a callback configured, success means the child reached the sync point and was approved there;
		// a child that never announced itself (it died, or its message was lost) cannot have been approved
		return vcore.Violate(prop, "failure_reported_as_success", "child_never_at_sync_point", "%s: Start returned pid %d, nil and ran the callback %d time(s) although the child never reached the sync point", what, l.pid, l.cbCalls)
	}
	if l.snap != nil {
		if v := s2CheckState(prop, g, k0, files, l, true, true); v != nil {
			v.Kind = "ran_despite_failed_step"
			v.Site = site + "/" + v.Site
			v.Msg = what + ": the program was executed although a step failed: " + v.Msg
			return v
		}
	}
	return nil
}

func s2RunC07(c *vcore.Ctx) *vcore.Violation {
	const prop = "C07"
	g := genS2Cfg(c, false)
	g.twice = false
	// natural failure shapes
	switch c.Src.Int(8, "natural") {
	case 0:
		g.execErrno = []syscall.Errno{syscall.ENOENT, syscall.EACCES, syscall.ENOEXEC}[c.Src.Int(3, "execerrno")]
	case 1:
		g.execBusy = 1 + c.Src.Int(60, "busy")
	case 2:
		if g.nMounts > 0 {
			g.badMount = c.Src.Int(g.nMounts, "badmount")
		}
	case 3:
		g.badWorkdir = g.workdir != ""
	}
	natural := g.execErrno != 0 || g.execBusy > 50 || g.badMount >= 0 || g.badWorkdir || g.syncMode == 2
	c.Logf("config: %s files=%v sock=%v exec=%d mounts=%d rlimits=%d natural-failure=%v", g.vector(), fdList(g.files), g.sockFds, g.execFile, g.nMounts, g.nRlimits, natural)
	ls, k0, files := s2StartWithFiles(c, g, s2plan{failAt: -1}, 1)
	base := ls[0]
	if c.Replay {
		for _, t := range base.trace {
			c.Logf("  %s", t)
		}
	}
	if natural {
		c.Fault("natural_failure")
		must := !earlyReturn(g) || g.syncMode == 2
		if g.syncMode == 2 && g.ptrace && g.seccomp {
			must = true
		}
		if v := s2CheckFailure(prop, g, base, k0, files, "natural failure ("+naturalName(g)+")", "", "", "natural", must); v != nil {
			v.Site = naturalName(g)
			return v
		}
		if base.err != nil && g.badMount >= 0 {
			var ce forkexec.ChildError
			if errors.As(base.err, &ce) && ce.Index != g.badMount {
				return vcore.Violate(prop, "error_wrong_index", "mount", "mount %d failed but the error names index %d", g.badMount, ce.Index)
			}
		}
		return nil
	}
	if base.err != nil || base.deadlock != "" {
		return vcore.Violate(prop, "launch_refused", "fault_free", "fault-free launch failed: %v %s (vector %s)", base.err, base.deadlock, g.vector())
	}
	// enumerate: a fault at every system call index of the fault-free trace
	n := base.nSys
	type tr struct {
		actor, name, args string
		ord               int
	}
	var steps []tr
	for _, t := range base.ktrace {
		steps = append(steps, tr{t.actor, t.name, t.args, t.ord})
	}
	c.Probe("c07_configs")
	for idx := 0; idx < n && idx < len(steps); idx++ {
		st := steps[idx]
		kinds := []string{"errno"}
		idMapStep := false
		if st.name == "exit" || st.name == "nanosleep" {
			continue
		}
		if st.actor != "child" {
			// parent side: steps whose failure the kernel can really produce and the protocol must survive
			switch st.name {
			case "socketpair", "clone", "clone3":
			case "open":
				idMapStep = true
			case "write":
				// writing an id map or the setgroups switch is refused by the kernel for overlapping extents,
				// unprivileged or nested callers (EINVAL / EPERM): the child must then not go on
				if !strings.HasPrefix(st.args, "40,") {
					continue
				}
				idMapStep = true
			case "read", "wait4":
				kinds = []string{"eintr"}
			default:
				continue
			}
		} else {
			kinds = append(kinds, "die")
			if st.name == "read" || st.name == "write" {
				kinds = append(kinds, "short")
			}
		}
		kind := kinds[c.Src.Int(len(kinds), "faultkind")]
		plan := s2plan{actor: st.actor, failAt: st.ord, failKind: kind, errno: syscall.EPERM, sched: c.Src.Int(3, "sched")}
		if st.name == "clone" || st.name == "clone3" {
			plan.errno = syscall.EAGAIN
		}
		if kind == "eintr" {
			plan.failKind, plan.errno = "errno", syscall.EINTR
		}
		ls2, k2, files2 := s2StartWithFiles(c, g, plan, 1)
		l := ls2[0]
		c.Probe("c07_fault_runs")
		c.Event(fmt.Sprintf("fault:%s:%s:%s", st.actor, st.name, kind))
		what := fmt.Sprintf("%s of %s's %s (its call #%d, schedule %d)", kind, st.actor, st.name, st.ord, plan.sched)
		// the parent reports the failed id-map step to the child, which gives up; Start says so unless the
		// configuration makes it return at the child's stop, before anything later can be reported
		mustFail := idMapStep && kind == "errno" && !earlyReturn(g)
		v := s2CheckFailure(prop, g, l, k2, files2, what, st.name, st.actor, kind, mustFail)
		if v == nil && kind == "errno" && st.actor == "child" && l.err != nil {
			var ce forkexec.ChildError
			if errors.As(l.err, &ce) {
				want := -1
				switch st.name {
				case "prlimit64":
					cnt := 0
					for j := 0; j < idx; j++ {
						if steps[j].name == "prlimit64" && steps[j].actor == "child" {
							cnt++
						}
					}
					want = cnt
				}
				if want >= 0 && ce.Index != want {
					v = vcore.Violate(prop, "error_wrong_index", st.name, "%s: error names index %d, the failing entry is %d", what, ce.Index, want)
				}
			}
		}
		if v != nil {
			c.Logf("fault plan: %s", what)
			for _, t := range l.trace {
				c.Logf("  %s", t)
			}
			return v
		}
	}
	return nil
}

func naturalName(g *s2cfg) string {
	switch {
	case g.syncMode == 2:
		return "callback_error"
	case g.execErrno != 0:
		return "exec_" + g.execErrno.Error()
	case g.execBusy > 50:
		return "exec_text_busy"
	case g.badMount >= 0:
		return "bad_mount_source"
	case g.badWorkdir:
		return "missing_workdir"
	}
	return "none"
}

// s2WithTrace attaches the system-call trace of the last launch to a violation found in the
// search (replays log every trace anyway), so that a violation is explainable even from the
// original run.
func s2WithTrace(c *vcore.Ctx, v *vcore.Violation) *vcore.Violation {
	if v != nil && !c.Replay {
		c.Logf("system-call trace of the last launch of the violating run:")
		for _, t := range s2LastTrace {
			c.Logf("  %s", t)
		}
	}
	return v
}

var s2LastTrace []string

func init() {
	noInit := func(dir, tier string) error { return nil }
	register(&vcore.Prop{
		ID: "C04", Level: "exploration", Worlds: "S2",
		Rule:        "one run = one option vector (credential, drop-caps, no-new-privs, seccomp, ptrace, stop-before-seccomp, callback, late cgroup unshare, 7 clone flags, pivot root + mounts, clone-into-cgroup, fexecve, ctty, workdir, host/domain, id maps, privileged/unprivileged caller) launched by the real forkexec code against the stub kernel with a seeded parent/child schedule; the state at the exec system call is compared with the request. distinct = hash of the system-call event sequence (actor:syscall); non-trivial = a schedule decision between two runnable actors was taken",
		Components:  s2Components,
		Assumptions: []string{"the stub kernel's rules for securebits/capabilities/seccomp/setuid fix-up follow the man pages; cross-checked against the real kernel by the world-K probe where built"},
		Quick:       vcore.Budget{Wall: 25 * time.Second, Shards: 16},
		Thorough:    vcore.Budget{Wall: 10 * time.Minute, Shards: 16},
		Init:        noInit,
		Run: func(c *vcore.Ctx) *vcore.Violation {
			g := genS2Cfg(c, false)
			g.twice = false
			c.Event("vec:" + g.vector())
			return s2WithTrace(c, s2RunFaultFree(c, "C04", g, true, false))
		},
	})
	register(&vcore.Prop{
		ID: "C06", Level: "exploration", Worlds: "S2",
		Rule:        "one run = one descriptor list (length 0..8 over values 0..12 with repeats, gaps, self-mappings, close markers) x simulator-chosen numbers for the internal socketpair, exec and cgroup descriptors (anywhere in 3..14) x option vector x one or two Starts of the same Runner value, executed by the real forkexec code against the stub kernel; the descriptor table at exec is compared file by file with the caller's list. distinct = hash of (placement, system-call event sequence); non-trivial = an internal descriptor lies inside 0..n-1 or collides with the scratch area, or a schedule decision was taken",
		Components:  s2Components,
		Assumptions: []string{"open-file identity, dup3/fcntl/close-on-exec semantics of the stub kernel follow the man pages"},
		Quick:       vcore.Budget{Wall: 25 * time.Second, Shards: 16},
		Thorough:    vcore.Budget{Wall: 10 * time.Minute, Shards: 16},
		Init:        noInit,
		Run: func(c *vcore.Ctx) *vcore.Violation {
			g := genS2Cfg(c, true)
			n := len(g.files)
			if g.sockFds[0] < n || g.sockFds[1] < n || (g.execFile > 0 && g.execFile < n+2) || (g.cgroupFd > 0 && g.cgroupFd < n) {
				c.MarkNonTrivial()
				c.Probe("internal_fd_inside_list_range")
			}
			c.Event(fmt.Sprintf("place:%v:%v:%d:%d", fdList(g.files), g.sockFds, g.execFile, g.cgroupFd))
			return s2WithTrace(c, s2RunFaultFree(c, "C06", g, false, true))
		},
	})
	register(&vcore.Prop{
		ID: "C07", Level: "fault_enumeration", Worlds: "S2",
		Rule:        "one run = one launch configuration; first a fault-free launch records the system-call trace of parent and child, then one launch per index of that trace with that call failing (errno; for child calls also death by signal; short read/write on the sync socket; EINTR on the parent's read/wait) under a seeded or forced child-first/parent-first schedule; natural failures (callback error, exec ENOENT/EACCES/ENOEXEC/ETXTBSY x n, bad mount source, missing workdir) are separate shapes. distinct = hash of (vector, fault list); non-trivial = at least one fault fired. evaluations counts configurations; reach_probes.c07_fault_runs counts faulted launches",
		Components:  s2Components,
		Assumptions: []string{"per configuration the fault index space (every call of the fault-free trace) is enumerated completely for one fault kind per index; configurations are sampled", "parent-side faults are limited to calls whose failure a real kernel can produce and the protocol is meant to survive (socketpair, clone, id-map open, EINTR on read/wait)"},
		Quick:       vcore.Budget{Wall: 30 * time.Second, Shards: 16},
		Thorough:    vcore.Budget{Wall: 15 * time.Minute, Shards: 16},
		Init:        noInit,
		Run:         func(c *vcore.Ctx) *vcore.Violation { return s2WithTrace(c, s2RunC07(c)) },
	})
	_ = unix.CLONE_NEWUSER
}
