//go:build verif

package sim

import (
	"os"
	"testing"

	"github.com/criyle/go-sandbox/container"
	"github.com/criyle/go-sandbox/zverif/vcore"
)

var simT *testing.T

var registry = map[string]*vcore.Prop{}

func register(p *vcore.Prop) { registry[p.ID] = p }

func TestMain(m *testing.M) {
	// container init role of world K (no-op unless we are pid 1 with the init argument)
	if err := container.Init(); err != nil {
		os.Exit(1)
	}
	if r := os.Getenv("VERIF_HELPER"); r != "" {
		os.Exit(helperMain(r))
	}
	os.Exit(m.Run())
}

func TestSim(t *testing.T) {
	simT = t
	code := vcore.Main(registry)
	if code != 0 {
		os.Exit(code)
	}
}
