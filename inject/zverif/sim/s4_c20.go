//go:build verif && !verifs2

package sim

import (
	"bufio"
	"fmt"
	"os"
	"os/exec"
	"path/filepath"
	"strconv"
	"strings"
	"sync"
	"syscall"
	"time"

	"github.com/criyle/go-sandbox/pkg/cgroup"
	"github.com/criyle/go-sandbox/zverif/vcore"
)

// World S4: pkg/cgroup with a simulator yield before every file-system call. Worker goroutines
// run API operations on a shared tree; exactly one is released at a time up to its next
// file-system call, so the interleaving of creators on a real file system is the yield order.

const cgBase = "/sys/fs/cgroup"

var s4Overlay string // what is currently mounted over /sys/fs/cgroup in this worker's namespace

func s4SetMode(mode string) {
	want := ""
	switch mode {
	case "v2":
		want = "cgroup2"
	case "fake1", "fake2":
		want = "tmpfs"
	}
	if s4Overlay != "" {
		if err := syscall.Unmount(cgBase, syscall.MNT_DETACH); err != nil {
			vcore.Harnessf("umount overlay: %v", err)
		}
		s4Overlay = ""
	}
	if want != "" {
		if err := syscall.Mount("none", cgBase, want, 0, ""); err != nil {
			vcore.Harnessf("mount %s over %s: %v", want, cgBase, err)
		}
		s4Overlay = want
	}
	if mode == "v1" || mode == "fake1" {
		cgroup.DetectedCgroupType = cgroup.TypeV1
	} else {
		cgroup.DetectedCgroupType = cgroup.TypeV2
	}
}

type s4worker struct {
	randomExisting string // Random returned an existing group (its path)
	id      int
	gid     int
	grant   chan syscall.Errno
	parked  bool
	done    bool
	pendOp  string
	pendArg string
	ops     []string
	log     []string
}

type s4sched struct {
	c       *vcore.Ctx
	mu      sync.Mutex
	byGid   map[int]*s4worker
	workers []*s4worker
	notify  chan *s4worker
	eintr   int // remaining EINTR injections
}

func (s *s4sched) yield(op, path string) syscall.Errno {
	s.mu.Lock()
	w := s.byGid[goid()]
	s.mu.Unlock()
	if w == nil {
		return 0 // not a scheduled worker (set-up / oracle code of the harness)
	}
	w.pendOp, w.pendArg = op, path
	s.notify <- w
	return <-w.grant
}

// run drives all workers to completion; returns false if some worker never finished.
func (s *s4sched) run(root string) bool {
	c := s.c
	running := 0 // workers released and not yet parked again
	parked := map[*s4worker]bool{}
	finished := 0
	for _, w := range s.workers {
		running++
		_ = w
	}
	for finished < len(s.workers) {
		// collect notifications of everything that is running (a worker blocked on a lock held by a
		// parked one does not notify: after a grace period it is treated as blocked)
		for running > 0 {
			select {
			case w := <-s.notify:
				running--
				if w.done {
					finished++
				} else {
					parked[w] = true
				}
			case <-time.After(300 * time.Millisecond):
				c.Probe("worker_blocked_on_package_lock")
				running = 0
			}
		}
		if finished == len(s.workers) {
			return true
		}
		if len(parked) == 0 {
			// nothing parked, nothing finished: wait for late notifications
			select {
			case w := <-s.notify:
				if w.done {
					finished++
				} else {
					parked[w] = true
				}
				continue
			case <-time.After(10 * time.Second):
				return false
			}
		}
		var cand []*s4worker
		for _, w := range s.workers {
			if parked[w] {
				cand = append(cand, w)
			}
		}
		pick := cand[0]
		if len(cand) > 1 {
			pick = cand[c.Src.Int(len(cand), "worker")]
			c.MarkNonTrivial()
		}
		var errno syscall.Errno
		if s.eintr > 0 && (pick.pendOp == "read" || pick.pendOp == "write") && c.Src.Bool(1, 4, "eintr") {
			s.eintr--
			errno = syscall.EINTR
			c.Fault("eintr_on_cgroup_file")
		}
		c.Event(fmt.Sprintf("w%d:%s", pick.id, pick.pendOp))
		c.Logf("  w%d %s %s%s", pick.id, pick.pendOp, strings.TrimPrefix(pick.pendArg, cgBase), map[bool]string{true: " -> EINTR", false: ""}[errno != 0])
		delete(parked, pick)
		running++
		pick.grant <- errno
	}
	return true
}

type s4handle struct {
	ino       uint64 // inode of the first directory right after the handle was obtained
	shared    string // set when another live creating handle stood for the same directory instance
	cg        cgroup.Cgroup
	paths     []string // directories this handle stands for
	created   bool
	by        int
	op        string
	destroyed bool
}

func s4Paths(mode string, ctrls []string, rel string) []string {
	if mode == "v1" || mode == "fake1" {
		var p []string
		for _, c := range ctrls {
			p = append(p, filepath.Join(cgBase, c, rel))
		}
		return p
	}
	return []string{filepath.Join(cgBase, rel)}
}

var s4RunNo int

func s4Cleanup(mode string, ctrls []string, prefix string) {
	for _, p := range s4Paths(mode, ctrls, prefix) {
		// depth-first rmdir (cgroup directories cannot be RemoveAll'ed)
		filepath.Walk(p, func(string, os.FileInfo, error) error { return nil })
		var dirs []string
		filepath.Walk(p, func(q string, fi os.FileInfo, err error) error {
			if err == nil && fi.IsDir() {
				dirs = append(dirs, q)
			}
			return nil
		})
		for i := len(dirs) - 1; i >= 0; i-- {
			syscall.Rmdir(dirs[i])
		}
	}
}

func c20Run(c *vcore.Ctx) *vcore.Violation {
	const prop = "C20"
	src := c.Src
	mode := src.Pick("mode", "v1", "v1", "v2", "fake2", "fake1")
	s4SetMode(mode)
	s4RunNo++
	// cgroup hierarchies are global: the name must be unique across shards (pids repeat across pid namespaces)
	prefix := fmt.Sprintf("verif-%x-%d", fnvString(c.Dir), s4RunNo)
	ct := &cgroup.Controllers{}
	var ctrls []string
	if mode == "v1" || mode == "fake1" {
		names := []string{"cpu", "cpuacct", "memory", "pids"}
		if _, err := os.Stat(filepath.Join(cgBase, "cpuset", "cpuset.cpus")); mode == "v1" && err == nil {
			names = append(names, "cpuset") // (real hierarchy only, where there is one: a new cpuset group takes its cpus and mems from its parent)
		}
		for _, n := range names {
			if src.Bool(2, 3, "ctrl") {
				ct.Set(n, true)
				ctrls = append(ctrls, n)
			}
		}
		if len(ctrls) == 0 {
			ct.Set("pids", true)
			ctrls = []string{"pids"}
		}
		if mode == "v1" && src.Bool(3, 4, "single_ctrl") {
			// concurrent creators on several v1 hierarchies can split a group's directories between
			// handles, and the API has one ownership bit per handle: ownership clauses are judged on
			// single-controller groups, the multi-controller shape keeps the sequential clauses
			ct = &cgroup.Controllers{}
			ct.Set(ctrls[0], true)
			ctrls = ctrls[:1]
		}
	}
	if mode == "fake1" || mode == "fake2" {
		return c20Stats(c, mode, prefix, ct, ctrls)
	}
	c.Logf("mode=%s controllers=%v prefix=%s", mode, ctrls, prefix)
	defer s4Cleanup(mode, ctrls, prefix)

	// a pre-existing group that no history may remove
	pre := "pre"
	for _, p := range s4Paths(mode, ctrls, filepath.Join(prefix, pre)) {
		if err := os.MkdirAll(p, 0755); err != nil {
			vcore.Harnessf("mkdir %s: %v", p, err)
		}
	}
	sched := &s4sched{c: c, byGid: map[int]*s4worker{}, notify: make(chan *s4worker, 16)}
	if src.Bool(1, 3, "eintr_shape") {
		sched.eintr = 3
	}
	randPool := []int32{7, 7, 8}
	randIdx := 0
	var rmu sync.Mutex
	cgroup.VSetRandom(func() int32 {
		rmu.Lock()
		defer rmu.Unlock()
		v := randPool[randIdx%len(randPool)] + int32(randIdx/len(randPool))*100
		randIdx++
		return v
	})
	defer cgroup.VSetRandom(nil)
	// the shared parent is built without concurrency
	var root cgroup.Cgroup
	var err error
	concurrentRoot := src.Bool(1, 3, "concurrent_root")
	if !concurrentRoot {
		root, err = cgroup.New(prefix, ct)
		if err != nil {
			return vcore.Violate(prop, "new_failed", mode, "cgroup.New(%s) failed without concurrency: %v", prefix, err)
		}
	}
	nworkers := 2 + src.Int(2, "nworkers")
	if len(ctrls) > 1 {
		nworkers = 1
	}
	var hmu sync.Mutex
	var handles []*s4handle
	names := []string{"g0", "g1"}
	for i := 0; i < nworkers; i++ {
		w := &s4worker{id: i, grant: make(chan syscall.Errno)}
		nops := 1 + src.Int(2, "nops")
		for j := 0; j < nops; j++ {
			op := src.Pick("op", "new", "new", "random", "open_pre", "new_destroy", "nest")
			if concurrentRoot {
				op = src.Pick("op_root", "toplevel_new", "toplevel_new", "toplevel_new_destroy")
			}
			w.ops = append(w.ops, op+":"+names[src.Int(len(names), "name")])
		}
		sched.workers = append(sched.workers, w)
	}
	cgroup.VSetYield(sched.yield)
	defer cgroup.VSetYield(nil)
	var wg sync.WaitGroup
	for _, w := range sched.workers {
		w := w
		wg.Add(1)
		go func() {
			defer wg.Done()
			sched.mu.Lock()
			w.gid = goid()
			sched.byGid[w.gid] = w
			sched.mu.Unlock()
			// first yield: the worker starts only when the scheduler lets it
			sched.yield("start", "")
			for _, o := range w.ops {
				parts := strings.SplitN(o, ":", 2)
				op, name := parts[0], parts[1]
				var h cgroup.Cgroup
				var err error
				rel := filepath.Join(prefix, name)
				switch op {
				case "new", "new_destroy":
					h, err = root.New(name)
				case "random":
					h, err = root.Random("r*")
					if err == nil {
						rel = "" // path is taken from the handle below
					}
				case "open_pre":
					h, err = cgroup.OpenExisting(filepath.Join(prefix, pre), ct)
					rel = filepath.Join(prefix, pre)
				case "nest":
					h, err = root.Nest(name)
				case "toplevel_new", "toplevel_new_destroy":
					h, err = cgroup.New(filepath.Join(prefix, name), ct)
				}
				if err != nil || h == nil {
					w.log = append(w.log, fmt.Sprintf("%s -> error %v", o, err))
					continue
				}
				if op == "random" && h.Existing() {
					// Random promises a new group: a name that turned out to be taken must be drawn again
					w.randomExisting = s4RelOf(h, prefix)
				}
				sh := &s4handle{cg: h, created: !h.Existing(), by: w.id, op: op}
				if rel == "" {
					// Random: recover the name from the handle's printed form
					rel = s4RelOf(h, prefix)
				}
				sh.paths = s4Paths(mode, ctrls, rel)
				var st syscall.Stat_t
				if syscall.Stat(sh.paths[0], &st) == nil {
					sh.ino = st.Ino
				}
				hmu.Lock()
				for _, o := range handles {
					// same path, same directory instance, both alive, both claim creation
					if sh.created && o.created && !o.destroyed && o.ino == sh.ino && sh.ino != 0 && samePaths(o.paths, sh.paths) {
						sh.shared = fmt.Sprintf("worker %d via %s", o.by, o.op)
					}
				}
				handles = append(handles, sh)
				hmu.Unlock()
				w.log = append(w.log, fmt.Sprintf("%s -> %s created=%v", o, rel, sh.created))
				if strings.HasSuffix(op, "_destroy") {
					derr := h.Destroy()
					hmu.Lock()
					sh.destroyed = true
					hmu.Unlock()
					w.log = append(w.log, fmt.Sprintf("destroy -> %v", derr))
				}
			}
			w.done = true
			sched.notify <- w
		}()
	}
	finished := sched.run(prefix)
	if !finished {
		return vcore.Violate(prop, "hang", mode, "a cgroup operation never finished")
	}
	wg.Wait()
	cgroup.VSetYield(nil)
	for _, w := range sched.workers {
		for _, l := range w.log {
			c.Logf("w%d: %s", w.id, l)
		}
	}
	for _, w := range sched.workers {
		if w.randomExisting != "" {
			return vcore.Violate(prop, "random_returned_existing_group", mode+"/random", "Random returned the already existing group %s to worker %d (two callers now share one group's limits and readings)", strings.TrimPrefix(w.randomExisting, prefix), w.id)
		}
	}
	exists := func(p string) bool { fi, err := os.Stat(p); return err == nil && fi.IsDir() }
	// 1. two live handles that both claim creation never stand for the same directory instance
	owner := map[string]*s4handle{}
	for _, h := range handles {
		if h.shared != "" {
			return vcore.Violate(prop, "shared_ownership", mode+"/"+opClass(h.op), "two live handles (%s; worker %d via %s) both claim to have created %s", h.shared, h.by, h.op, strings.TrimPrefix(h.paths[0], cgBase))
		}
		if h.created && !h.destroyed {
			for _, p := range h.paths {
				owner[p] = h
			}
		}
	}
	// 2. a live handle's group exists (nobody else removed it)
	for _, h := range handles {
		if h.destroyed {
			continue
		}
		live := true
		for _, o := range handles {
			if o != h && o.destroyed && o.created && samePaths(o.paths, h.paths) {
				live = false // its creator destroyed it: legitimate
			}
		}
		for _, p := range h.paths {
			if live && !exists(p) {
				return vcore.Violate(prop, "group_vanished", mode+"/"+opClass(h.op), "the group of a live handle (worker %d via %s, created=%v) does not exist any more: %s", h.by, h.op, h.created, strings.TrimPrefix(p, cgBase))
			}
		}
	}
	// 3. the pre-existing group survives everything, including Destroy of handles opened on it
	for _, h := range handles {
		if h.op == "open_pre" {
			h.cg.Destroy()
		}
	}
	for _, p := range s4Paths(mode, ctrls, filepath.Join(prefix, pre)) {
		if !exists(p) {
			return vcore.Violate(prop, "preexisting_removed", mode, "the pre-existing group %s was removed", strings.TrimPrefix(p, cgBase))
		}
	}
	// 4. Destroy removes exactly the groups the handle created
	for _, h := range handles {
		if h.destroyed || h.op == "open_pre" {
			continue
		}
		wasCreated := h.created
		err := h.cg.Destroy()
		for _, p := range h.paths {
			if wasCreated && exists(p) && owner[p] == h {
				// children created by other handles keep it busy: only flag when it is empty
				if ents, _ := os.ReadDir(p); !hasSubdir(ents) {
					return vcore.Violate(prop, "destroy_left_group", mode+"/"+opClass(h.op), "Destroy of the creating handle left %s (err=%v)", strings.TrimPrefix(p, cgBase), err)
				}
			}
			if !wasCreated && !exists(p) {
				stillOwned := false
				for _, o := range handles {
					if o.created && !o.destroyed && o != h && samePaths(o.paths, h.paths) {
						stillOwned = true
					}
				}
				if stillOwned {
					return vcore.Violate(prop, "destroy_removed_foreign_group", mode+"/"+opClass(h.op), "Destroy of a handle that did not create %s removed it", strings.TrimPrefix(p, cgBase))
				}
			}
		}
		h.destroyed = true
	}
	// 4b. v1: handles on one name with different controller subsets: destroying the later, wider one must
	// leave the directories the earlier one created
	if mode == "v1" && root != nil {
		avail := []string{"cpu", "cpuacct", "memory", "pids"}
		first := avail[1+src.Int(3, "subset_first"):]
		if len(first) > 2 {
			first = first[:2]
		}
		ctA, ctB := &cgroup.Controllers{}, &cgroup.Controllers{}
		for _, n := range first {
			ctA.Set(n, true)
			ctB.Set(n, true)
		}
		ctB.Set("cpu", true)
		name := filepath.Join(prefix, "subset")
		hA, errA := cgroup.New(name, ctA)
		if errA == nil {
			hB, errB := cgroup.New(name, ctB)
			if errB == nil {
				hB.Destroy()
				for _, p := range s4Paths(mode, first, name) {
					if !exists(p) {
						hA.Destroy()
						return vcore.Violate(prop, "destroy_removed_foreign_group", "v1/controller_subsets", "a handle for controllers %v created %s; a later handle for %v on the same name was destroyed and took it along", first, strings.TrimPrefix(p, cgBase), append([]string{"cpu"}, first...))
					}
				}
				syscall.Rmdir(filepath.Join(cgBase, "cpu", name))
			}
			hA.Destroy()
			for _, p := range s4Paths(mode, append([]string{"cpu"}, first...), name) {
				syscall.Rmdir(p)
			}
		}
		c.Event("subset:" + strings.Join(first, "+"))
	}
	// 5. AddProc moves exactly the given process; limits read back (sequential part, real hierarchies)
	if root != nil {
		if mode == "v1" && src.Bool(1, 6, "foreign_namespace_creator") {
			if v := c20ForeignNamespace(c, prefix); v != nil {
				return v
			}
		}
		if v := c20ProcAndLimits(c, mode, root, prefix, ctrls); v != nil {
			return v
		}
		root.Destroy()
	}
	return nil
}

func fnvString(s string) uint32 {
	h := uint32(2166136261)
	for i := 0; i < len(s); i++ {
		h ^= uint32(s[i])
		h *= 16777619
	}
	return h
}

func hasSubdir(ents []os.DirEntry) bool {
	for _, e := range ents {
		if e.IsDir() {
			return true
		}
	}
	return false
}

func opClass(op string) string { return strings.TrimSuffix(op, "_destroy") }

func samePaths(a, b []string) bool {
	if len(a) != len(b) {
		return false
	}
	for i := range a {
		if a[i] != b[i] {
			return false
		}
	}
	return true
}

// s4RelOf extracts the group's relative path from a handle's String().
func s4RelOf(h cgroup.Cgroup, prefix string) string {
	s := fmt.Sprint(h)
	i := strings.Index(s, prefix)
	if i < 0 {
		return prefix
	}
	j := strings.IndexAny(s[i:], ")[")
	if j < 0 {
		return s[i:]
	}
	return s[i : i+j]
}

// cpusetOnly: the controller set of a second handle (all controllers of the run)
func cpusetOnly(ctrls []string) *cgroup.Controllers {
	ct := &cgroup.Controllers{}
	for _, n := range ctrls {
		ct.Set(n, true)
	}
	return ct
}

func c20ProcAndLimits(c *vcore.Ctx, mode string, root cgroup.Cgroup, prefix string, ctrls []string) *vcore.Violation {
	const prop = "C20"
	src := c.Src
	g, err := root.New("procs")
	if err != nil {
		return vcore.Violate(prop, "new_failed", mode+"/sequential", "New(procs) failed: %v", err)
	}
	defer g.Destroy()
	// two parked probes: one is added, the other must not move
	var cmds []*exec.Cmd
	for i := 0; i < 2; i++ {
		// (a process with several threads: "that process" means all of them)
		cmd := exec.Command(probePath, "thread", "1", "pause", "thread", "1", "pause", "pause")
		if err := cmd.Start(); err != nil {
			vcore.Harnessf("start probe: %v", err)
		}
		cmds = append(cmds, cmd)
	}
	defer func() {
		for _, cmd := range cmds {
			cmd.Process.Kill()
			cmd.Wait()
		}
	}()
	target, other := cmds[0].Process.Pid, cmds[1].Process.Pid
	for i := 0; i < 200; i++ { // until the target has started its threads
		if ts, _ := os.ReadDir(fmt.Sprintf("/proc/%d/task", target)); len(ts) >= 3 {
			break
		}
		time.Sleep(2 * time.Millisecond)
	}
	before, _ := os.ReadFile(fmt.Sprintf("/proc/%d/cgroup", other))
	if err := g.AddProc(target); err != nil {
		return vcore.Violate(prop, "addproc_failed", mode, "AddProc(%d) failed: %v", target, err)
	}
	want := "/" + filepath.Join(prefix, "procs")
	var data []byte
	tasks, _ := os.ReadDir(fmt.Sprintf("/proc/%d/task", target))
	for _, t := range tasks {
		b, _ := os.ReadFile(fmt.Sprintf("/proc/%d/task/%s/cgroup", target, t.Name()))
		data = append(data, b...)
	}
	if len(tasks) < 3 {
		// the probe's threads are started before it pauses; give them a moment on a loaded machine
		c.Probe("addproc_target_not_yet_multithreaded")
	}
	for _, line := range strings.Split(strings.TrimSpace(string(data)), "\n") {
		f := strings.SplitN(line, ":", 3)
		if len(f) != 3 {
			continue
		}
		relevant := false
		if mode == "v2" {
			relevant = f[1] == ""
		} else {
			for _, ct := range ctrls {
				for _, n := range strings.Split(f[1], ",") {
					if n == ct {
						relevant = true
					}
				}
			}
		}
		if relevant && f[2] != want {
			return vcore.Violate(prop, "addproc_not_moved", mode, "after AddProc a thread of the process is in %q for %q, expected %q", f[2], f[1], want)
		}
	}
	after, _ := os.ReadFile(fmt.Sprintf("/proc/%d/cgroup", other))
	if string(before) != string(after) {
		return vcore.Violate(prop, "addproc_moved_other", mode, "AddProc of one pid moved another process")
	}
	if src.Bool(1, 3, "addproc_dead_pid_first") {
		// a list whose first pid is gone already (a process that ended between a listing and the move): the call may
		// fail, but if it reports success every live process of the list has been moved
		dead := exec.Command(probePath, "exit", "0")
		if err := dead.Start(); err == nil {
			deadPid := dead.Process.Pid
			dead.Wait()
			g2, err := root.New("procs2")
			if err != nil {
				return vcore.Violate(prop, "new_failed", mode+"/sequential", "New(procs2) failed: %v", err)
			}
			aerr := g2.AddProc(deadPid, other)
			defer g2.Destroy()
			c.Fault("addproc_list_with_dead_pid")
			if aerr == nil {
				in := false
				if ps, _ := g2.Processes(); len(ps) > 0 {
					for _, p := range ps {
						in = in || p == other
					}
				}
				if !in {
					return vcore.Violate(prop, "addproc_not_moved", mode+"/dead_pid_in_list", "AddProc(dead pid %d, live pid %d) returned nil but the live process was not moved", deadPid, other)
				}
			}
			// (the second probe has served its purpose; an empty group can be removed)
			cmds[1].Process.Kill()
			cmds[1].Wait()
			for i := 0; i < 100; i++ {
				if ps, _ := g2.Processes(); len(ps) == 0 {
					break
				}
				time.Sleep(2 * time.Millisecond)
			}
		}
	}
	pids, err := g.Processes()
	if err != nil || len(pids) != 1 || pids[0] != target {
		return vcore.Violate(prop, "processes_wrong", mode, "Processes() = %v, %v; expected [%d]", pids, err, target)
	}
	if mode == "v1" {
		has := func(n string) bool {
			for _, x := range ctrls {
				if x == n {
					return true
				}
			}
			return false
		}
		if has("memory") {
			lim := uint64(4096 * (1000 + src.Int(100000, "memlimit")))
			if err := g.SetMemoryLimit(lim); err != nil {
				return vcore.Violate(prop, "limit_failed", "memory", "SetMemoryLimit(%d): %v", lim, err)
			}
			if got := readUint(filepath.Join(cgBase, "memory", prefix, "procs", "memory.limit_in_bytes")); got != lim {
				return vcore.Violate(prop, "limit_not_in_force", "memory", "memory limit written %d, in force %d", lim, got)
			}
		}
		if has("pids") {
			lim := uint64(1 + src.Int(5000, "pidlimit"))
			if err := g.SetProcLimit(lim); err != nil {
				return vcore.Violate(prop, "limit_failed", "pids", "SetProcLimit(%d): %v", lim, err)
			}
			if got := readUint(filepath.Join(cgBase, "pids", prefix, "procs", "pids.max")); got != lim {
				return vcore.Violate(prop, "limit_not_in_force", "pids", "pids.max written %d, in force %d", lim, got)
			}
		}
		if has("cpu") {
			q, p := uint64(1000*(1+src.Int(900, "quota"))), uint64(1000*(1+src.Int(999, "period")))
			if err := g.SetCPUBandwidth(q, p); err != nil {
				return vcore.Violate(prop, "limit_failed", "cpu", "SetCPUBandwidth(%d,%d): %v", q, p, err)
			}
			gq := readUint(filepath.Join(cgBase, "cpu", prefix, "procs", "cpu.cfs_quota_us"))
			gp := readUint(filepath.Join(cgBase, "cpu", prefix, "procs", "cpu.cfs_period_us"))
			if gq != q || gp != p {
				return vcore.Violate(prop, "limit_not_in_force", "cpu", "cpu bandwidth written %d/%d, in force %d/%d", q, p, gq, gp)
			}
		}
		if has("pids") && src.Bool(1, 2, "second_handle_history") {
			// a history over two handles of one group: what a handle wrote earlier says nothing about what
			// is in force now - somebody else (another handle, an operator) may have written in between
			g2, err := root.New("procs")
			if err != nil {
				return vcore.Violate(prop, "new_failed", mode+"/second_handle", "New on the existing group failed: %v", err)
			}
			file := filepath.Join(cgBase, "pids", prefix, "procs", "pids.max")
			v1, v2 := uint64(10+src.Int(100, "hv1")), uint64(1000+src.Int(100, "hv2"))
			for i, st := range []struct {
				h cgroup.Cgroup
				v uint64
			}{{g, v1}, {g2, v2}, {g, v1}, {g2, v1}, {g2, v2}, {g, v2}} {
				if err := st.h.SetProcLimit(st.v); err != nil {
					return vcore.Violate(prop, "limit_failed", "pids/second_handle", "step %d: SetProcLimit(%d): %v", i, st.v, err)
				}
				if got := readUint(file); got != st.v {
					return vcore.Violate(prop, "limit_not_in_force", "pids/second_handle", "step %d of a history over two handles of one group: SetProcLimit(%d) returned nil but pids.max is %d", i, st.v, got)
				}
			}
			c.Probe("two_handle_limit_history")
		}
		if has("cpuset") {
			// a limit written through one handle is in force until somebody writes another one: making a second
			// handle of the group (New on the existing name, OpenExisting) writes nothing
			file := filepath.Join(cgBase, "cpuset", prefix, "procs", "cpuset.cpus")
			if err := g.SetCPUSet([]byte("0")); err != nil {
				return vcore.Violate(prop, "limit_failed", "cpuset", "SetCPUSet(0): %v", err)
			}
			if b, _ := os.ReadFile(file); strings.TrimSpace(string(b)) != "0" {
				return vcore.Violate(prop, "limit_not_in_force", "cpuset", "cpuset.cpus written \"0\", in force %q", strings.TrimSpace(string(b)))
			}
			how := src.Pick("second_handle_via", "new", "open_existing")
			var err2 error
			if how == "new" {
				_, err2 = root.New("procs")
			} else {
				_, err2 = cgroup.OpenExisting(filepath.Join(prefix, "procs"), cpusetOnly(ctrls))
			}
			if err2 != nil {
				return vcore.Violate(prop, "new_failed", mode+"/second_handle", "a second handle of the existing group (%s) failed: %v", how, err2)
			}
			if b, _ := os.ReadFile(file); strings.TrimSpace(string(b)) != "0" {
				return vcore.Violate(prop, "limit_not_in_force", "cpuset/second_handle", "cpuset.cpus was \"0\"; after a second handle of the group was made (%s) it is %q", how, strings.TrimSpace(string(b)))
			}
			c.Probe("cpuset_second_handle")
		}
		if has("cpuacct") {
			if _, err := g.CPUUsage(); err != nil {
				return vcore.Violate(prop, "usage_failed", "cpuacct", "CPUUsage: %v", err)
			}
		}
	}
	// destroying a handle touches its own group only: idle groups other handles made below it stay
	if src.Bool(1, 2, "destroy_parent_with_foreign_children") {
		pool, err := root.New("pool")
		if err != nil {
			return vcore.Violate(prop, "new_failed", mode+"/pool", "New(pool) failed: %v", err)
		}
		other, err := root.New("pool") // a second party sharing the prefix: a handle of the existing group
		if err != nil {
			return vcore.Violate(prop, "new_failed", mode+"/pool", "New on the existing pool failed: %v", err)
		}
		job, err := other.New("job")
		if err != nil {
			return vcore.Violate(prop, "new_failed", mode+"/pool", "New(job) below the pool failed: %v", err)
		}
		derr := pool.Destroy()
		for _, p := range s4Paths(mode, ctrls, filepath.Join(prefix, "pool", "job")) {
			if _, e := os.Stat(p); e != nil {
				job.Destroy()
				other.Destroy()
				return vcore.Violate(prop, "destroy_removed_foreign_group", mode+"/child_of_destroyed_parent", "Destroy of the handle that created %s/pool (result %v) also removed the idle group pool/job, made through another handle: %s is gone", prefix, derr, p)
			}
		}
		c.Probe("parent_destroyed_before_foreign_child")
		job.Destroy()
		other.Destroy()
		pool.Destroy()
	}
	// move the probe back out so that the group can be removed
	for _, cmd := range cmds {
		cmd.Process.Kill()
		cmd.Wait()
	}
	cmds = nil
	return nil
}

func readUint(p string) uint64 {
	b, err := os.ReadFile(p)
	if err != nil {
		return ^uint64(0)
	}
	v, err := strconv.ParseUint(strings.TrimSpace(string(b)), 10, 64)
	if err != nil {
		return ^uint64(0) - 1
	}
	return v
}

// c20Stats: usage readers against generated statistics files on a tmpfs fake.
func c20Stats(c *vcore.Ctx, mode, prefix string, ct *cgroup.Controllers, ctrls []string) *vcore.Violation {
	const prop = "C20"
	src := c.Src
	bigs := []uint64{0, 1, 999, 4096, 1 << 32, 1<<53 + 1, 1<<62 + 12345, 1<<63 - 1, 9223372036854775}
	pick := func(l string) uint64 { return bigs[src.Int(len(bigs), l)] }
	cpuUs, memCur, memPeak, pidsPeak := pick("cpu"), pick("memcur"), pick("mempeak"), pick("pidspeak")
	if cpuUs > (1<<63-1)/1000 {
		cpuUs = 9223372036854775
	}
	shape := src.Pick("statshape", "plain", "extra_fields", "reordered", "missing", "garbled")
	c.Logf("mode=%s stats shape=%s cpu=%d memcur=%d mempeak=%d pidspeak=%d", mode, shape, cpuUs, memCur, memPeak, pidsPeak)
	c.Event("stats:" + mode + ":" + shape)
	c.MarkNonTrivial()
	write := func(p, content string) {
		os.MkdirAll(filepath.Dir(p), 0755)
		if err := os.WriteFile(p, []byte(content), 0644); err != nil {
			vcore.Harnessf("write fake: %v", err)
		}
	}
	var h cgroup.Cgroup
	var err error
	if mode == "fake2" {
		dir := filepath.Join(cgBase, prefix)
		write(filepath.Join(cgBase, "cgroup.controllers"), "cpu memory pids\n")
		write(filepath.Join(cgBase, "cgroup.subtree_control"), "cpu memory pids\n")
		write(filepath.Join(dir, "cgroup.controllers"), "cpu memory pids\n")
		cpuStat := fmt.Sprintf("usage_usec %d\nuser_usec 5\nsystem_usec 6\n", cpuUs)
		switch shape {
		case "extra_fields":
			cpuStat = fmt.Sprintf("usage_usec %d\nuser_usec 5\nsystem_usec 6\nnr_periods 0\nnr_throttled 0\nthrottled_usec 0\ncore_sched.force_idle_usec 0\n", cpuUs)
		case "reordered":
			cpuStat = fmt.Sprintf("user_usec 5\nsystem_usec 6\nnr_periods 3\nusage_usec %d\n", cpuUs)
		case "garbled":
			cpuStat = "usage_usec notanumber\n"
		}
		if shape != "missing" {
			write(filepath.Join(dir, "cpu.stat"), cpuStat)
			mc, mp, pp := fmt.Sprintf("%d\n", memCur), fmt.Sprintf("%d\n", memPeak), fmt.Sprintf("%d\n", pidsPeak)
			if shape == "garbled" {
				mc, mp, pp = "12x\n", "\n", "max\n"
			}
			write(filepath.Join(dir, "memory.current"), mc)
			write(filepath.Join(dir, "memory.peak"), mp)
			write(filepath.Join(dir, "pids.peak"), pp)
		} else {
			os.MkdirAll(dir, 0755)
		}
		h, err = cgroup.OpenExisting(prefix, &cgroup.Controllers{CPU: true, Memory: true, Pids: true})
	} else {
		for _, ctl := range []string{"cpuacct", "memory"} {
			dir := filepath.Join(cgBase, ctl, prefix)
			os.MkdirAll(dir, 0755)
		}
		if shape != "missing" {
			cu, mc, mp := fmt.Sprintf("%d\n", cpuUs), fmt.Sprintf("%d\n", memCur), fmt.Sprintf("%d\n", memPeak)
			if shape == "garbled" {
				cu, mc, mp = "1 2\n", "x\n", "-5\n"
			}
			write(filepath.Join(cgBase, "cpuacct", prefix, "cpuacct.usage"), cu)
			write(filepath.Join(cgBase, "memory", prefix, "memory.usage_in_bytes"), mc)
			write(filepath.Join(cgBase, "memory", prefix, "memory.max_usage_in_bytes"), mp)
		}
		h, err = cgroup.OpenExisting(prefix, &cgroup.Controllers{CPUAcct: true, Memory: true})
	}
	if err != nil {
		return vcore.Violate(prop, "open_failed", mode, "OpenExisting on the fake hierarchy failed: %v", err)
	}
	bad := shape == "missing" || shape == "garbled"
	check := func(name string, got uint64, gerr error, want uint64) *vcore.Violation {
		if bad {
			if gerr == nil {
				return vcore.Violate(prop, "number_from_bad_file", mode+"/"+name, "%s returned %d without error although its file is %s", name, got, shape)
			}
			return nil
		}
		if gerr != nil {
			return vcore.Violate(prop, "usage_failed", mode+"/"+name, "%s failed on a well-formed file (%s): %v", name, shape, gerr)
		}
		if got != want {
			return vcore.Violate(prop, "wrong_unit_or_value", mode+"/"+name, "%s = %d, the file says %d", name, got, want)
		}
		return nil
	}
	cu, e1 := h.CPUUsage()
	wantCPU := cpuUs
	if mode == "fake2" {
		wantCPU = cpuUs * 1000 // usage_usec -> ns
	}
	if v := check("CPUUsage", cu, e1, wantCPU); v != nil {
		return v
	}
	mu, e2 := h.MemoryUsage()
	if v := check("MemoryUsage", mu, e2, memCur); v != nil {
		return v
	}
	mm, e3 := h.MemoryMaxUsage()
	if v := check("MemoryMaxUsage", mm, e3, memPeak); v != nil {
		return v
	}
	if mode == "fake2" {
		pp, e4 := h.ProcessPeak()
		if v := check("ProcessPeak", pp, e4, pidsPeak); v != nil {
			return v
		}
	}
	// limit writers: what ends up in the kernel's control file is the limit the caller asked for, in the
	// kernel's format (on the fake the files are plain files, so exactly the written text can be read back)
	vals := []uint64{1, 1000, 10000, 100000, 250000, 1000000, 1 << 33}
	q, pr := vals[src.Int(len(vals), "fquota")], vals[src.Int(5, "fperiod")]
	mem, np := uint64(4096*(1+src.Int(1<<20, "fmem"))), uint64(1+src.Int(100000, "fpids"))
	readTxt := func(rel string) string {
		b, _ := os.ReadFile(rel)
		return strings.TrimSpace(string(b))
	}
	if mode == "fake2" {
		dir := filepath.Join(cgBase, prefix)
		if err := h.SetCPUBandwidth(q, pr); err != nil {
			return vcore.Violate(prop, "limit_failed", mode+"/cpu", "SetCPUBandwidth(%d,%d): %v", q, pr, err)
		}
		if got, want := readTxt(filepath.Join(dir, "cpu.max")), fmt.Sprintf("%d %d", q, pr); got != want {
			return vcore.Violate(prop, "limit_not_in_force", mode+"/cpu", "SetCPUBandwidth(%d,%d) left %q in cpu.max, the kernel's format for that limit is %q", q, pr, got, want)
		}
		if err := h.SetMemoryLimit(mem); err != nil {
			return vcore.Violate(prop, "limit_failed", mode+"/memory", "SetMemoryLimit(%d): %v", mem, err)
		}
		if got := readTxt(filepath.Join(dir, "memory.max")); got != fmt.Sprint(mem) {
			return vcore.Violate(prop, "limit_not_in_force", mode+"/memory", "SetMemoryLimit(%d) left %q in memory.max", mem, got)
		}
		if err := h.SetProcLimit(np); err != nil {
			return vcore.Violate(prop, "limit_failed", mode+"/pids", "SetProcLimit(%d): %v", np, err)
		}
		if got := readTxt(filepath.Join(dir, "pids.max")); got != fmt.Sprint(np) {
			return vcore.Violate(prop, "limit_not_in_force", mode+"/pids", "SetProcLimit(%d) left %q in pids.max", np, got)
		}
		c.Probe("fake_v2_limit_writers_checked")
	} else {
		if err := h.SetMemoryLimit(mem); err != nil {
			return vcore.Violate(prop, "limit_failed", mode+"/memory", "SetMemoryLimit(%d): %v", mem, err)
		}
		if got := readTxt(filepath.Join(cgBase, "memory", prefix, "memory.limit_in_bytes")); got != fmt.Sprint(mem) {
			return vcore.Violate(prop, "limit_not_in_force", mode+"/memory", "SetMemoryLimit(%d) left %q in memory.limit_in_bytes", mem, got)
		}
		c.Probe("fake_v1_limit_writers_checked")
	}
	return nil
}

func init() {
	register(&vcore.Prop{
		ID: "C20", Level: "exploration", Worlds: "S4",
		Rule: "one run = either (a) 2..3 worker goroutines performing 1..2 operations each from {New(name), Random(pattern), Nest, OpenExisting(pre-existing), New+Destroy, top-level cgroup.New(+Destroy)} on a shared parent with names and random numbers forced to collide, on this VM's real v1 hierarchies or a real cgroup2 mount, the simulator releasing exactly one file-system call at a time (optionally failing reads/writes with EINTR), followed by ownership/Destroy/pre-existing-group/AddProc/limit read-back checks; or (b) generated statistics files (values up to 2^63-1, extra fields, reordered lines, missing, garbled) on a tmpfs fake for the usage readers of both hierarchies. distinct = hash of the released file-system call sequence; non-trivial = at least one scheduling decision between two parked workers, an EINTR, or a statistics shape",
		Components: map[string]string{
			"pkg/cgroup":                    "real; every os.Stat/Mkdir/MkdirAll/ReadFile/WriteFile/OpenFile/Rmdir goes through a yield wrapper spliced in by seamgen; rand.Int32 redirected to the choice stream",
			"cgroup v1 hierarchies":         "real (this VM: cpu, cpuacct, memory, pids under /sys/fs/cgroup)",
			"cgroup v2 hierarchy":           "real cgroup2 mount over /sys/fs/cgroup in the check's private mount namespace, without controllers (all bound to v1 here); statistics on a tmpfs fake",
			"scheduler of concurrent users": "simulator: one released file-system call at a time",
			"processes moved by AddProc":    "stub: parked vprobe processes",
		},
		Assumptions: []string{"no cpu/memory/pids controller is available to cgroup2 on this VM, so v2 limit enforcement is not exercised (v1 covers the real controllers)", "a worker blocked on a package-internal lock is recognised by a 300 ms grace period"},
		NeedNS:      true,
		Quick:       vcore.Budget{Wall: 30 * time.Second, Shards: 8},
		Thorough:    vcore.Budget{Wall: 10 * time.Minute, Shards: 8},
		Init:        kInit, Run: c20Run, StallLimit: 120 * time.Second,
	})
}

// ---- creators in another pid namespace ---------------------------------------------------------------
//
// Two daemons in two containers share the host's cgroup hierarchy and, quite possibly, their pid (both
// are the second process of their pid namespace, like this worker). "Each group created through the
// library is a distinct group" also between them: names drawn by Random must not be a function of
// things that repeat across namespaces.

func init() { helpers["cgrandom"] = cgRandomHelper }

// cgRandomHelper (second process of a fresh pid namespace): creates N groups with Random below the given
// parent, prints "name <path> existing=<bool>" per group, waits for a byte on stdin, destroys them.
func cgRandomHelper() int {
	prefix, n := os.Getenv("VERIF_CG_PARENT"), 3
	fmt.Printf("pid %d\n", os.Getpid())
	parent, err := cgroup.OpenExisting(prefix, &cgroup.Controllers{Pids: true})
	if err != nil {
		fmt.Printf("error open %v\n", err)
		return 0
	}
	var made []cgroup.Cgroup
	for i := 0; i < n; i++ {
		g, err := parent.Random("run-*")
		if err != nil {
			fmt.Printf("error random %v\n", err)
			continue
		}
		made = append(made, g)
		fmt.Printf("name %s existing=%v\n", s4RelOf(g, prefix), g.Existing())
	}
	fmt.Println("done")
	var b [1]byte
	os.Stdin.Read(b[:])
	for _, g := range made {
		g.Destroy()
	}
	return 0
}

func c20ForeignNamespace(c *vcore.Ctx, prefix string) *vcore.Violation {
	const prop = "C20"
	ct := &cgroup.Controllers{Pids: true}
	parent, err := cgroup.New(prefix+"/shared", ct)
	if err != nil {
		return vcore.Violate(prop, "new_failed", "v1/foreign_namespace", "New(shared) failed: %v", err)
	}
	defer parent.Destroy()
	self, _ := os.Executable()
	cmd := exec.Command("unshare", "-p", "-f", "--mount-proc", "--propagation", "private", "-m", self, "-test.run", "^TestSim$", "-test.timeout", "0")
	var env []string
	for _, e := range os.Environ() {
		if !strings.HasPrefix(e, "VERIF_ROLE=") && !strings.HasPrefix(e, "VERIF_HELPER=") {
			env = append(env, e)
		}
	}
	cmd.Env = append(env, "VERIF_ROLE=nsinit", "VERIF_NSROLE=worker", "VERIF_NSHELPER=cgrandom", "VERIF_CG_PARENT="+prefix+"/shared")
	stdin, _ := cmd.StdinPipe()
	stdout, _ := cmd.StdoutPipe()
	if err := cmd.Start(); err != nil {
		vcore.Harnessf("foreign creator: %v", err)
	}
	defer func() { stdin.Close(); cmd.Wait() }()
	// this worker creates its groups at the same time
	var mine []cgroup.Cgroup
	names := map[string]string{}
	for i := 0; i < 3; i++ {
		g, err := parent.Random("run-*")
		if err != nil {
			return vcore.Violate(prop, "new_failed", "v1/foreign_namespace", "Random failed: %v", err)
		}
		mine = append(mine, g)
		if g.Existing() {
			return vcore.Violate(prop, "random_returned_existing_group", "v1/foreign_namespace", "Random handed this process (pid %d) the existing group %s", os.Getpid(), s4RelOf(g, prefix+"/shared"))
		}
		names[s4RelOf(g, prefix+"/shared")] = fmt.Sprintf("this process (pid %d)", os.Getpid())
	}
	defer func() {
		for _, g := range mine {
			g.Destroy()
		}
	}()
	sc := bufio.NewScanner(stdout)
	otherPid := "?"
	for sc.Scan() {
		l := sc.Text()
		f := strings.Fields(l)
		switch {
		case len(f) == 2 && f[0] == "pid":
			otherPid = f[1]
		case len(f) == 3 && f[0] == "name":
			if who, dup := names[f[1]]; dup {
				return vcore.Violate(prop, "two_creators_one_group", "v1/foreign_namespace", "Random gave the group %s to %s and to a creator in another pid namespace (pid %s there): the two now share limits and readings", f[1], who, otherPid)
			}
			if f[2] != "existing=false" {
				return vcore.Violate(prop, "random_returned_existing_group", "v1/foreign_namespace", "Random handed the creator in the other pid namespace (pid %s) an existing group: %s", otherPid, l)
			}
			names[f[1]] = "the creator in the other pid namespace"
		case strings.HasPrefix(l, "error"):
			vcore.Harnessf("foreign creator: %s", l)
		}
		if l == "done" {
			break
		}
	}
	c.Logf("creators with pid %d here and pid %s in another pid namespace made %d distinct groups below one parent", os.Getpid(), otherPid, len(names))
	c.Probe("creators_in_two_pid_namespaces")
	return nil
}
