//go:build verif && !verifs2

package sim

import (
	"context"
	"fmt"
	"os"
	"path/filepath"
	"strings"
	"syscall"
	"time"

	"github.com/criyle/go-sandbox/ptracer"
	"github.com/criyle/go-sandbox/runner"
	"github.com/criyle/go-sandbox/runner/ptrace"
	"github.com/criyle/go-sandbox/zverif/vcore"
)

// C03: verdicts of the handler are enforced for every process and thread of the program.
// Every traced call has an observable effect keyed by a unique name (mkdirat of a fresh
// directory); the verdict is encoded in the name and decided by the scripted handler.

type c03call struct {
	block   int
	proc    string // main, fork, vfork, thread
	verdict string // allow ban kill filterkill
	path    string
	first   bool // first call of a new process
}

func c03Run(c *vcore.Ctx) *vcore.Violation {
	const prop = "C03"
	src := c.Src
	dir, err := os.MkdirTemp(kDir, "c03")
	if err != nil {
		vcore.Harnessf("mkdtemp: %v", err)
	}
	defer os.RemoveAll(dir)
	banRet := []syscall.Errno{syscall.EACCES, syscall.EPERM, syscall.ENOENT, syscall.Errno(77)}[src.Int(4, "banret")]
	ptrace.BanRet = banRet
	defer func() { ptrace.BanRet = syscall.EACCES }()

	var calls []*c03call
	seq, blockNo := 0, 0
	genCalls := func(proc string, n int, allowFatal bool) []string {
		var s []string
		for i := 0; i < n; i++ {
			v := src.Pick("verdict", "allow", "allow", "ban", "ban", "kill", "filterkill")
			if !allowFatal && (v == "kill" || v == "filterkill") {
				v = "ban"
			}
			seq++
			cl := &c03call{block: blockNo, proc: proc, verdict: v, first: i == 0 && proc != "main"}
			cl.path = filepath.Join(dir, fmt.Sprintf("%s_%d_%s", v, seq, proc))
			calls = append(calls, cl)
			if v == "filterkill" {
				// mkdir(2) (not mkdirat) is outside both lists: the filter's default action kills
				s = append(s, "sys", "83", "s:"+cl.path, "0755", "0", "0", "0", "0")
			} else {
				s = append(s, "sys", "258", "-100", "s:"+cl.path, "0755", "0", "0", "0")
			}
		}
		return s
	}
	fatalShape := src.Bool(1, 2, "fatal_shape")
	var script []string
	nblocks := 1 + src.Int(4, "nblocks")
	for b := 0; b < nblocks; b++ {
		blockNo = b
		// (spawn: vfork + execve of the probe itself with the block as its script - a process of the tree that
		// replaces its image; whatever the tracer keeps per process must survive that, for every other process too)
		kind := src.Pick("proc", "main", "main", "fork", "vfork", "thread", "spawn")
		n := 1 + src.Int(3, "ncalls")
		if kind == "main" {
			script = append(script, genCalls("main", n, fatalShape)...)
			continue
		}
		c.MarkNonTrivial()
		body := genCalls(kind, n, fatalShape)
		script = append(script, kind, fmt.Sprint(n))
		script = append(script, body...)
		if kind == "thread" {
			script = append(script, "join")
		}
	}
	// a traced call without a path (sched_yield): the policy sees only its name, and answers each
	// occurrence on its own (a budget, an allow-once rule): the k-th answer applies to the k-th call
	var yields []string
	for i, n := 0, src.Int(5, "nyields"); i < n; i++ {
		yields = append(yields, src.Pick("yield_verdict", "allow", "ban"))
		script = append(script, "sys", "24", "0", "0", "0", "0", "0", "0")
	}
	if len(yields) > 0 {
		c.Event("yields:" + strings.Join(yields, ","))
	}
	script = append(script, "wait", "exit", "0")
	if src.Bool(1, 4, "lingering_thread") {
		// another thread of the group is alive (sleeping, no traced calls) while the leader makes its calls:
		// a kill verdict, by the handler or by the filter, must still end the whole program
		script = append([]string{"thread", "1", "sleep", "400"}, script...)
		c.Event("lingering_thread")
		c.MarkNonTrivial()
	}
	hasFatal, hasThread := false, false
	for _, cl := range calls {
		if cl.verdict == "kill" || cl.verdict == "filterkill" {
			hasFatal = true
		}
		if cl.proc == "thread" {
			hasThread = true
		}
		c.Event(cl.proc + ":" + cl.verdict)
	}
	c.Logf("BanRet=%d script=%s", int(banRet), strings.ReplaceAll(strings.Join(script, " "), dir, "$D"))
	yieldIdx := 0
	h := &recHandler{decide: func(kind, arg string, n int) ptracer.TraceAction {
		if kind == "syscall" && arg == "sched_yield" {
			yieldIdx++
			if yieldIdx <= len(yields) && yields[yieldIdx-1] == "allow" {
				return ptracer.TraceAllow
			}
			return ptracer.TraceBan
		}
		base := filepath.Base(arg)
		switch {
		case strings.HasPrefix(base, "allow_"):
			return ptracer.TraceAllow
		case strings.HasPrefix(base, "ban_"):
			return ptracer.TraceBan
		}
		return ptracer.TraceKill
	}}
	// allow everything except mkdirat (traced) and mkdir (killed by the filter default)
	filter := kFilterAllowAllBut([]string{"mkdirat", "sched_yield"}, []string{"mkdir"})
	var res runner.Result
	var out *kOut
	// the caller's stack depth when it starts the run (see withStackPhase)
	levels, fine := src.Int(130, "stack_levels"), 16*src.Int(5, "stack_fine")
	c.Logf("caller stack phase: %d frames + %d bytes", levels, fine)
	ok := watchdog(60*time.Second, func() {
		withStackPhase(levels, fine, func() {
			res, out = kRunPtrace(context.Background(), &kOpts{script: script, filter: filter, handler: h})
		})
	})
	if !ok {
		return vcore.Violate(prop, "hang", "run", "run did not return")
	}
	c.Logf("result: %s exit=%d err=%q rets=%v", statusName(res.Status), res.ExitStatus, res.Error, out.rets())
	for _, hc := range h.Calls() {
		c.Logf("  policy consulted: %s(%q) -> %d", hc.kind, strings.ReplaceAll(hc.arg, dir, "$D"), hc.act)
	}
	if res.Status == runner.StatusRunnerError {
		return vcore.Violate(prop, "runner_error", shrinkSite(res.Error), "runner error: %s", res.Error)
	}
	exists := func(p string) bool { _, err := os.Lstat(p); return err == nil }
	// no banned / killed call may ever take effect, in any process
	for _, cl := range calls {
		if cl.verdict != "allow" && exists(cl.path) {
			site := cl.proc + "/" + cl.verdict
			if cl.first {
				site += "/first_call_of_new_process"
			}
			return vcore.Violate(prop, "effect_of_refused_call", site, "a %s call of the %s process took effect: %s exists", cl.verdict, cl.proc, filepath.Base(cl.path))
		}
	}
	if hasFatal {
		if res.Status != runner.StatusDisallowedSyscall {
			// which kind of fatal call did the program make?
			site := "handler_kill"
			onlyFilter, inChild := true, true
			// only the first fatal call of a secondary process is reachable; in the main process a
			// fatal call ends everything after it
			seenFatal := map[int]bool{}
			for _, cl := range calls {
				if cl.verdict != "kill" && cl.verdict != "filterkill" {
					continue
				}
				key := cl.block
				if cl.proc == "main" {
					key = -1
				}
				if seenFatal[key] {
					continue
				}
				seenFatal[key] = true
				if cl.verdict == "kill" {
					onlyFilter = false
				}
				if cl.proc == "main" {
					inChild = false
				}
			}
			if onlyFilter {
				site = "filter_kill"
			}
			if inChild {
				site += "/secondary_process"
			}
			return vcore.Violate(prop, "fatal_call_not_reported", site, "the program made a call with a kill verdict but the run ended as %s/%d", statusName(res.Status), res.ExitStatus)
		}
		return nil
	}
	// no fatal verdict anywhere: the program runs to completion
	if res.Status != runner.StatusNormal {
		return vcore.Violate(prop, "wrong_status", "no_fatal_call", "all calls were allowed or banned but the run ended as %s/%d (%s)", statusName(res.Status), res.ExitStatus, res.Error)
	}
	for _, cl := range calls {
		if cl.verdict == "allow" && !exists(cl.path) && !(hasThread && cl.proc == "thread") {
			return vcore.Violate(prop, "allowed_call_lost", cl.proc, "an allowed call of the %s process did not take effect: %s missing", cl.proc, filepath.Base(cl.path))
		}
	}
	// return values as seen by the program: allowed -> 0, banned -> -BanRet (threads may be cut short)
	rets := out.rets()
	if !hasThread {
		if len(rets) != len(calls)+len(yields) {
			return vcore.Violate(prop, "calls_lost", "rets", "the program reported %d results for %d calls", len(rets), len(calls)+len(yields))
		}
		if yieldIdx != len(yields) {
			return vcore.Violate(prop, "consultation_count", "pathless_call", "the program made %d traced calls without a path, the policy was asked %d times", len(yields), yieldIdx)
		}
		// results are reported per process in program order; with several processes the global order of
		// report lines is not the script order, so compare as multisets per verdict
		wantBan, gotBan, gotOK := 0, 0, 0
		for _, cl := range calls {
			if cl.verdict == "ban" {
				wantBan++
			}
		}
		for _, y := range yields {
			if y == "ban" {
				wantBan++
			}
		}
		for _, r := range rets {
			switch r {
			case 0:
				gotOK++
			case -int64(banRet):
				gotBan++
			default:
				return vcore.Violate(prop, "wrong_return_value", "ban", "a call returned %d; expected 0 (allowed) or %d (banned)", r, -int64(banRet))
			}
		}
		if gotBan != wantBan {
			return vcore.Violate(prop, "wrong_return_value", "ban_count", "%d calls were banned but %d returned %d", wantBan, gotBan, -int64(banRet))
		}
	}
	return nil
}

func init() {
	register(&vcore.Prop{
		ID: "C03", Level: "exploration", Worlds: "K",
		Rule:       "one run = one probe program of 1..4 blocks executed by the main process, a forked child, a vforked child, a child that execs the probe again (vfork+execve) or a thread (children issue their first traced call immediately); every call is mkdirat of a unique name (traced; verdict allow/ban/kill decided by the scripted handler from the name) or mkdir (outside both lists: killed by the filter default), plus 0..4 traced calls without a path (sched_yield) each answered on its own; the caller's stack depth is swept; BanRet varied per run; afterwards the file system and the program's own report of return values are compared with the verdicts. distinct = hash of the (process, verdict) sequence; non-trivial = a secondary process or thread issued calls",
		Components: kComponents, Assumptions: append([]string{"the relative order of two simultaneously pending tracee stops is the kernel's; oracles do not depend on it"}, kAssume...), NeedNS: true,
		Quick:    vcore.Budget{Wall: 30 * time.Second, Shards: 16},
		Thorough: vcore.Budget{Wall: 12 * time.Minute, Shards: 16},
		Init:     kInitUnpriv, Run: c03Run, StallLimit: 120 * time.Second,
	})
}
