//go:build verif && !verifs2

package sim

import (
	"context"
	"errors"
	"fmt"
	"os"
	"strings"
	"time"

	"github.com/criyle/go-sandbox/container"
	"github.com/criyle/go-sandbox/runner"
	"github.com/criyle/go-sandbox/zverif/vcore"
)

// C10 in world K: the failure stages of Execve produced by real inputs on a real container
// (garbage executable = exec fails after the sync ack, text busy, empty argv, failing callbacks,
// unknown / non-executable files), inside histories; afterwards the environment must be usable.

func c10KRun(c *vcore.Ctx) *vcore.Violation {
	const prop = "C10"
	src := c.Src
	ct, err := kBuildContainer(nil, nil, nil)
	if err != nil {
		vcore.Harnessf("container build: %v", err)
	}
	defer ct.destroy()
	env := ct.env
	initPid := containerInitPid(ct)
	// files the stages need, created through the environment's own Open
	mk := func(path string, perm os.FileMode, content string) *os.File {
		r, err := env.Open([]container.OpenCmd{{Path: path, Flag: os.O_CREATE | os.O_WRONLY | os.O_TRUNC, Perm: perm}})
		if err != nil || len(r) != 1 || r[0].File == nil {
			vcore.Harnessf("preparing %s: %v %v", path, err, r)
		}
		r[0].File.WriteString(content)
		return r[0].File
	}
	mk("/w/garbage", 0777, "\x7fELFgarbage-not-an-executable").Close()
	mk("/w/data", 0644, "just data").Close()
	n := 1 + src.Int(6, "nops")
	used := map[int]bool{}
	var last string
	for i := 0; i <= n; i++ {
		stage := src.Pick("stage", "run", "run", "garbage_exec", "unknown_exe", "non_executable", "empty_args", "callback_error", "callback_error_after_exec", "text_busy", "ping", "reset_open",
			"oversize_env", "closed_descriptor", "too_many_descriptors", "open_oversize_reply", "open_too_many_files")
		if i == n {
			stage = "run" // epilogue: a fresh successful Execve
		}
		c.Event(stage)
		syncAfter := src.Bool(1, 3, "syncafter")
		withSync := src.Bool(2, 3, "withsync")
		code := 1 + src.Int(200, "code")
		for used[code] {
			code = 1 + (code+1)%200
		}
		used[code] = true
		p := container.ExecveParam{Env: []string{"PATH=/bin"}, Files: []uintptr{nullFile().Fd(), nullFile().Fd(), nullFile().Fd()}, SyncAfterExec: syncAfter}
		if withSync {
			p.SyncFunc = func(int) error { return nil }
		}
		wantFail := true
		var busy *os.File
		switch stage {
		case "run":
			p.Args = []string{ct.probe, "exit", fmt.Sprint(code)}
			wantFail = false
		case "garbage_exec":
			p.Args = []string{"/w/garbage"}
			c.Fault("exec_fails_after_sync_ack")
		case "unknown_exe":
			p.Args = []string{"no-such-program"}
		case "non_executable":
			p.Args = []string{"/w/data"}
		case "empty_args":
			p.Args = nil
		case "callback_error", "callback_error_after_exec":
			p.Args = []string{ct.probe, "sleep", "50", "exit", fmt.Sprint(code)}
			p.SyncAfterExec = stage == "callback_error_after_exec"
			p.SyncFunc = func(int) error { return errors.New("refused by caller") }
			c.Fault("sync_callback_error")
		case "text_busy":
			// the executable is held open for writing by the host while it is started
			busy = mk("/w/busy", 0777, "#!/bin/true\n")
			p.Args = []string{"/w/busy"}
			c.Fault("exec_text_busy")
		case "oversize_env":
			// a request the 32 KiB frame of the control socket cannot carry; an implementation that can carry it
			// after all runs the program
			p.Args = []string{ct.probe, "exit", fmt.Sprint(code)}
			p.Env = append(p.Env, "BIG="+strings.Repeat("e", 33000+src.Int(9000, "nbig")))
			c.Fault("message_refused:oversize_env")
		case "closed_descriptor":
			p.Args = []string{ct.probe, "exit", fmt.Sprint(code)}
			p.Files = append(p.Files, 1999) // nothing in a worker has that many descriptors
			c.Fault("message_refused:closed_descriptor")
		case "too_many_descriptors":
			p.Args = []string{ct.probe, "exit", fmt.Sprint(code)}
			for len(p.Files) < 254+src.Int(40, "nbig") {
				p.Files = append(p.Files, nullFile().Fd())
			}
			c.Fault("message_refused:too_many_descriptors")
		case "open_oversize_reply", "open_too_many_files":
			// a batch whose reply does not fit one packet (per-item error texts / more descriptors than SCM_RIGHTS
			// carries): the call may fail as a whole, the environment stays usable
			var batch []container.OpenCmd
			if stage == "open_oversize_reply" {
				for k, n := 0, 900+src.Int(300, "nbig"); k < n; k++ {
					batch = append(batch, container.OpenCmd{Path: fmt.Sprintf("q/%d", k), Flag: os.O_RDONLY})
				}
			} else {
				for k, n := 0, 254+src.Int(40, "nbig"); k < n; k++ {
					batch = append(batch, container.OpenCmd{Path: fmt.Sprintf("/w/many/%d", k), Flag: os.O_RDWR | os.O_CREATE, Perm: 0644, MkdirAll: true})
				}
			}
			c.Fault("message_refused:" + stage)
			c.MarkNonTrivial()
			var rs []container.OpenCmdResult
			var oerr error
			if !watchdog(30*time.Second, func() { rs, oerr = env.Open(batch) }) {
				return vcore.Violate(prop, "hang", "open/"+stage, "Open (%s, %d items) did not return", stage, len(batch))
			}
			for _, r := range rs {
				if r.File != nil {
					r.File.Close()
				}
			}
			c.Logf("op %d %s (%d items): %v", i, stage, len(batch), oerr)
			last = "open/" + stage
			if !pidAlive(initPid) {
				return vcore.Violate(prop, "container_exit", last, "the container init died after an Open batch of %d items (%s): %v", len(batch), stage, oerr)
			}
			continue
		case "ping":
			if err := env.Ping(); err != nil {
				return vcore.Violate(prop, "unusable", "after:"+last, "Ping failed after %s: %v", last, err)
			}
			continue
		case "reset_open":
			if err := env.Reset(); err != nil {
				return vcore.Violate(prop, "unexpected_error", "reset", "Reset failed: %v", err)
			}
			mk("/w/garbage", 0777, "\x7fELFgarbage-not-an-executable").Close()
			mk("/w/data", 0644, "just data").Close()
			continue
		}
		if stage != "run" {
			c.MarkNonTrivial()
		}
		var res runner.Result
		ok := watchdog(30*time.Second, func() { res = env.Execve(context.Background(), p) })
		if busy != nil {
			busy.Close()
		}
		c.Logf("op %d %s (syncAfter=%v sync=%v): %s exit=%d %q", i, stage, p.SyncAfterExec, p.SyncFunc != nil, statusName(res.Status), res.ExitStatus, res.Error)
		site := "execve/" + stage
		if !ok {
			return vcore.Violate(prop, "hang", site, "Execve (%s) did not return", stage)
		}
		if stage == "oversize_env" && res.Status != runner.StatusRunnerError {
			wantFail = false
		}
		if wantFail {
			if res.Status != runner.StatusRunnerError || res.Error == "" {
				return vcore.Violate(prop, "wrong_answer", site, "%s must be an error of the call, got %s/%d", stage, statusName(res.Status), res.ExitStatus)
			}
			last = site
		} else {
			after := site
			if last != "" {
				after = "after:" + last
			}
			if res.Status != runner.StatusNonzeroExitStatus || res.ExitStatus != code {
				return vcore.Violate(prop, "wrong_answer", after, "program exits with %d but the call returned %s/%d %q (previous failure: %s)", code, statusName(res.Status), res.ExitStatus, res.Error, last)
			}
		}
		if !pidAlive(initPid) {
			return vcore.Violate(prop, "container_exit", site, "the container init died after %s", stage)
		}
	}
	if err := env.Ping(); err != nil {
		return vcore.Violate(prop, "unusable", "after:"+last, "final Ping failed: %v", err)
	}
	return nil
}
