#!/usr/bin/env python3
# tools/update_meta.py <seedrerun log>: records the regression result of every filed change in its meta.json
import json,sys,re,os
log=open(sys.argv[1]).read().split('\n')
res={}
for l in log:
    m=re.match(r'^(C\d\d-m\d+): (REPORTED|MISSED|BROKEN)(.*)',l)
    if m: res[m.group(1)]=(m.group(2),m.group(3).strip())
for n,(r,rest) in sorted(res.items()):
    f=f'/verif/seeded/{n}/meta.json'
    if not os.path.exists(f): continue
    d=json.load(open(f))
    if 'first_attempt' not in d:
        cr=' '.join(d.get('checks_run',[]))
        d['first_attempt']='reported' if 'caught' in cr and 'missed' not in cr else 'missed by the check as it was when the change arrived'
    by=re.match(r'^by((?: C\d\d)+):',rest)
    d['final']={'REPORTED':'reported','MISSED':'missed','BROKEN':'check broken (exit 2)'}[r]
    if by: d['reported_by']=by.group(1).split()
    d['final_run']='bin/seedrerun (all filed changes re-applied to scratch copies of /repo HEAD, quick tier, 25 s, 6 shards)'
    d['final_violation']=rest[:300]
    json.dump(d,open(f,'w'),indent=1)
print(len(res),'changes;', sum(1 for v in res.values() if v[0]=='REPORTED'),'reported;', [k for k,v in res.items() if v[0]!='REPORTED'])
