#!/usr/bin/env python3
# regenerates /verif/MANIFEST.json from the table below (properties.jsonl is fixed)
import json
props=[json.loads(l) for l in open('/verif/properties.jsonl')]
TECH="deterministic simulation with fault injection: seeded choice stream drives generation, scheduling and faults; own shrinker; replay files"
claimed={
 "C10":("exploration","S1: both RPC endpoints in one synctest bubble over a simulated transport and stub process table; seeded histories x per-Execve failure stage x delivery/exit/cancel/close interleavings; oracle: attribution of results by unique exit values, the container never exits while the transport is intact, usable after every program-caused failure, prompt errors after transport loss; a Ping whose reply arrives just before its deadline with a descheduled caller; requests and replies the control socket refuses as a whole (beyond the 32 KiB frame, beyond 253 descriptors, a descriptor that is not open); every select of the container package is scheduled by the simulator (which goroutine looks, and at which case first), so that several cases are ready at once when it looks. K: the same call histories (every failure stage incl. exec failing after sync, ETXTBSY, refused callbacks, refused messages) against a real container with real programs; the init must survive and stay usable","DESIGN §5 C10","stub processes obey forkexec's contract; in K the kernel schedules"),
 "C11":("exploration","S1: cancel / Destroy injected at every event boundary of in-flight calls, also while the waiting goroutine is held in front of its select (cancellation and result both ready when it looks; the simulator names the case it tries first); oracle: the call returns (deadlock detection by quiescence + real-time watchdog), result is the stub child's genuine status or TLE, child killed and reaped, Destroy returns. K: real process trees (forking, signal-ignoring, daemonising, setsid) in the ptrace runner, the namespace runner and a container, cancelled at rendezvous-pinned instants (before start, child before setsid via the child gate, in the sync callback, in a policy consultation, at the n-th wait of the tracer, program running/exiting); the run must return promptly with a truthful verdict and no process of the tree may survive","DESIGN §5 C11","in K the instants are pinned by rendezvous, what the kernel does between two rendezvous is its own"),
 "C12":("exploration","S1: histories of up to 30 operations incl. failures, cancels, transport faults, Destroy in flight; descriptors in transit get unique numbers, so every descriptor either side received is audited at the end; host-side goroutines must all have ended; refused messages and simulator-scheduled selects as in C10. K: histories of 3..8 real runs (exit, crash, cancel, failing launch, refused callback, failing Build) per runner kind; descriptors of the host and of the container init, children, goroutines, cgroup directories and mounts are compared after a warm-up run and at the end","DESIGN §5 C12","K compares counts after a settle loop (a leak persists, transient descriptors of the Go runtime do not); every process of a tree announces its pid, a zombie held by one of the host's tracing threads counts as residue"),
 "C14":("exploration","S1: Open/Symlink/Delete batches over a scratch tree with adversarial objects planted before each call; every returned descriptor compared with lstat(path at that index): (dev,inode), regular file, access mode, close-on-exec; items that must succeed do; no call blocks (real-time watchdog); a forced collection with finalizers of the serving process may fall inside a batch. K: a program inside a real container plants the objects, the host's Open/Symlink batches are judged from outside (lstat inside the container's root via openat2 RESOLVE_IN_ROOT), nothing may be created through a planted link, a batch must return within 20 s","DESIGN §5 C14","in S1 objects are planted between calls by the simulator; in K by a real program before the batch"),
}
na={"C01":"pure function policy -> BPF program over 2^32 x arch inputs: no schedule, clock, I/O, fault or second party; input enumeration is not this technique (DESIGN §4)",
    "C18":"pure functions of (set, path) and a sequential counter map touched by one goroutine: no schedule or fault dimension (DESIGN §4)"}
import os
extra=json.load(open('/verif/tools/manifest_extra.json')) if os.path.exists('/verif/tools/manifest_extra.json') else {}
for k,v in extra.items(): claimed[k]=tuple(v)
m={"version":1,"setup_cmd":"bin/setup",
 "hooks":{"guard":"verif",
  "enable":"bin/check copies /repo's working tree to a scratch directory, overlays /verif/inject (files with build tag 'verif': harness packages zverif/* and in-package seam files zz_verif*.go), runs bin/seamgen (go/ast-located text splices in the scratch copy only), then builds `go1.26.8 test -c -tags verif ./zverif/sim`. Nothing guarded is committed to /repo; /repo only carries unguarded 'fix:' commits.",
  "baseline_off_cmd":"cd /repo && GOFLAGS=-mod=mod GOPROXY=off go test -vet=off -count=1 ./...",
  "source_commits":[],"add_only":True},
 "engines":[{"name":"vsim","path":"inject/zverif","serves_properties":sorted(claimed),"kind_free_text":"seeded deterministic simulator (worlds S1/S2/S4/S5/K, DESIGN §2): one recorded choice stream drives generation, scheduling and fault injection; shrinker on the choice stream; replay files"}],
 "checks":[],"notes":"Deterministic simulation with fault injection; see DESIGN.md. Exit codes: 0 held, 1 violation (VIOLATION line), 2 harness/build trouble.","not_applicable":[]}
for p in props:
    i=p['id']
    if i in claimed:
        lvl,text,ref,note=claimed[i][:4]
        m["checks"].append({"property_id":i,"quick_cmd":f"bin/check {i} quick","thorough_cmd":f"bin/check {i} thorough","evidence_file":f"/verif/evidence/{i}.json","replay_cmd_template":f"bin/check {i} --replay {{path}}","engine":"vsim","level_claimed":{"category":lvl,"text":text,"design_ref":ref},"level_note":note,"technique":TECH})
    else:
        m["not_applicable"].append({"property_id":i,"reason":na.get(i,"not claimed yet: its check (planned in DESIGN.md §5) is not built at this commit")})
json.dump(m,open('/verif/MANIFEST.json','w'),indent=1)
print("claimed:",sorted(claimed))
