// seamgen applies source-level seams to a scratch copy of criyle/go-sandbox (never to /repo).
// All edits are text splices at offsets derived from go/ast, so whatever the working tree
// contains (including edited code) is preserved around the seams. Rules rewrite whatever
// matches and assert nothing about match counts, except for extraction anchors, which fall
// back to a stub that reports "anchor missing" at run time (harness error, never a violation).
package main

import (
	"fmt"
	"go/ast"
	"go/parser"
	"go/token"
	"os"
	"path/filepath"
	"sort"
	"strings"
)

type edit struct {
	start, end int
	text       string
}

type file struct {
	path  string
	src   []byte
	fset  *token.FileSet
	ast   *ast.File
	edits []edit
	tail  []string
}

func (f *file) off(p token.Pos) int { return f.fset.Position(p).Offset }
func (f *file) replace(n ast.Node, text string) {
	f.edits = append(f.edits, edit{f.off(n.Pos()), f.off(n.End()), text})
}
func (f *file) insertAt(p token.Pos, text string) {
	o := f.off(p)
	f.edits = append(f.edits, edit{o, o, text})
}
func (f *file) text(a, b token.Pos) string { return string(f.src[f.off(a):f.off(b)]) }

func (f *file) flush() error {
	if len(f.edits) == 0 && len(f.tail) == 0 {
		return nil
	}
	sort.SliceStable(f.edits, func(i, j int) bool { return f.edits[i].start > f.edits[j].start })
	out := f.src
	for _, e := range f.edits {
		out = append(append(append([]byte{}, out[:e.start]...), e.text...), out[e.end:]...)
	}
	for _, t := range f.tail {
		out = append(out, "\n"+t+"\n"...)
	}
	return os.WriteFile(f.path, out, 0644)
}

func load(dir string) []*file {
	var files []*file
	ents, _ := os.ReadDir(dir)
	for _, e := range ents {
		n := e.Name()
		if e.IsDir() || !strings.HasSuffix(n, ".go") || strings.HasSuffix(n, "_test.go") || strings.HasPrefix(n, "zz_verif") {
			continue
		}
		if strings.Contains(n, "darwin") || strings.Contains(n, "_other") {
			continue
		}
		p := filepath.Join(dir, n)
		src, err := os.ReadFile(p)
		if err != nil {
			continue
		}
		fset := token.NewFileSet()
		a, err := parser.ParseFile(fset, p, src, parser.ParseComments)
		if err != nil {
			fmt.Fprintf(os.Stderr, "seamgen: parse %s: %v\n", p, err)
			os.Exit(2)
		}
		files = append(files, &file{path: p, src: src, fset: fset, ast: a})
	}
	return files
}

func recvType(fd *ast.FuncDecl) string {
	if fd.Recv == nil || len(fd.Recv.List) == 0 {
		return ""
	}
	t := fd.Recv.List[0].Type
	if s, ok := t.(*ast.StarExpr); ok {
		t = s.X
	}
	if id, ok := t.(*ast.Ident); ok {
		return id.Name
	}
	return ""
}

// redirectSel rewrites calls pkg.Name(...) to newName(...).
func redirectSel(files []*file, pkg, name, newName string) {
	for _, f := range files {
		ast.Inspect(f.ast, func(n ast.Node) bool {
			c, ok := n.(*ast.CallExpr)
			if !ok {
				return true
			}
			s, ok := c.Fun.(*ast.SelectorExpr)
			if !ok {
				return true
			}
			id, ok := s.X.(*ast.Ident)
			if ok && id.Name == pkg && s.Sel.Name == name {
				f.replace(s, newName)
				keep := "var _ = " + pkg + "." + name + " // keeps the import used after redirection"
				dup := false
				for _, t := range f.tail {
					if t == keep {
						dup = true
					}
				}
				if !dup {
					f.tail = append(f.tail, keep)
				}
			}
			return true
		})
	}
}

// prologue inserts text right after the opening brace of recv.name. In text, $R is replaced by the
// receiver's name, $P0, $P1... by the parameter names and $ERR by the name of an error result ("nil"
// if the results are unnamed), so that renamed identifiers do not break the seam.
func prologue(files []*file, recv, name, text string) {
	for _, f := range files {
		for _, d := range f.ast.Decls {
			fd, ok := d.(*ast.FuncDecl)
			if !ok || fd.Body == nil || fd.Name.Name != name || recvType(fd) != recv {
				continue
			}
			t := text
			if fd.Recv != nil && len(fd.Recv.List) > 0 && len(fd.Recv.List[0].Names) > 0 {
				t = strings.ReplaceAll(t, "$R", fd.Recv.List[0].Names[0].Name)
			}
			i := 0
			for _, p := range fd.Type.Params.List {
				for _, n := range p.Names {
					t = strings.ReplaceAll(t, fmt.Sprintf("$P%d", i), n.Name)
					i++
				}
			}
			errName := "nil"
			if fd.Type.Results != nil {
				for _, r := range fd.Type.Results.List {
					if id, ok := r.Type.(*ast.Ident); ok && id.Name == "error" && len(r.Names) > 0 {
						errName = r.Names[0].Name
					}
				}
			}
			t = strings.ReplaceAll(t, "$ERR", errName)
			f.insertAt(fd.Body.Lbrace+1, "\n"+t+"\n")
		}
	}
}

// addField inserts a field at the top of struct typeName.
func addField(files []*file, typeName, field string) {
	for _, f := range files {
		ast.Inspect(f.ast, func(n ast.Node) bool {
			ts, ok := n.(*ast.TypeSpec)
			if !ok || ts.Name.Name != typeName {
				return true
			}
			st, ok := ts.Type.(*ast.StructType)
			if ok {
				f.insertAt(st.Fields.Opening+1, "\n"+field+"\n")
			}
			return true
		})
	}
}

// methodCallInRecv rewrites X.meth() (no args) inside methods of recv to newName(&X).
func methodCallInRecv(files []*file, recv, meth, newName string) {
	for _, f := range files {
		for _, d := range f.ast.Decls {
			fd, ok := d.(*ast.FuncDecl)
			if !ok || fd.Body == nil || recvType(fd) != recv {
				continue
			}
			ast.Inspect(fd.Body, func(n ast.Node) bool {
				c, ok := n.(*ast.CallExpr)
				if !ok || len(c.Args) != 0 {
					return true
				}
				s, ok := c.Fun.(*ast.SelectorExpr)
				if !ok || s.Sel.Name != meth {
					return true
				}
				if id, ok := s.X.(*ast.Ident); ok {
					f.replace(c, newName+"(&"+id.Name+")")
				}
				return true
			})
		}
	}
}

// fieldMethodCall rewrites X.<any field>.meth() (no arguments) inside methods of recv to
// newName(X.<field>): the field may be renamed, the shape stays.
func fieldMethodCall(files []*file, recv, meth, newName string) {
	for _, f := range files {
		for _, d := range f.ast.Decls {
			fd, ok := d.(*ast.FuncDecl)
			if !ok || fd.Body == nil || recvType(fd) != recv {
				continue
			}
			ast.Inspect(fd.Body, func(n ast.Node) bool {
				c, ok := n.(*ast.CallExpr)
				if !ok || len(c.Args) != 0 {
					return true
				}
				s, ok := c.Fun.(*ast.SelectorExpr)
				if !ok || s.Sel.Name != meth {
					return true
				}
				if in, ok := s.X.(*ast.SelectorExpr); ok {
					if _, ok := in.X.(*ast.Ident); ok {
						if strings.HasPrefix(newName, "&") { // pass the field's address
							f.replace(c, newName[1:]+"(&"+f.text(in.Pos(), in.End())+")")
						} else {
							f.replace(c, newName+"("+f.text(in.Pos(), in.End())+")")
						}
					}
				}
				return true
			})
		}
	}
}

// extractTail copies the statements of func fn starting at the first `v := &lit{` to the end of the
// body into a new function appended to the same file.
func extractTail(files []*file, recv, fn, lit, header, pre, fallback string) {
	found := false
	for _, f := range files {
		for _, d := range f.ast.Decls {
			fd, ok := d.(*ast.FuncDecl)
			if !ok || fd.Body == nil || fd.Name.Name != fn || recvType(fd) != recv {
				continue
			}
			for _, st := range fd.Body.List {
				as, ok := st.(*ast.AssignStmt)
				if !ok || len(as.Rhs) != 1 {
					continue
				}
				u, ok := as.Rhs[0].(*ast.UnaryExpr)
				if !ok {
					continue
				}
				cl, ok := u.X.(*ast.CompositeLit)
				if !ok {
					continue
				}
				id, ok := cl.Type.(*ast.Ident)
				if !ok || id.Name != lit {
					continue
				}
				body := f.text(as.Pos(), fd.Body.Rbrace)
				f.tail = append(f.tail, header+" {\n"+pre+"\n"+body+"\n}")
				found = true
				break
			}
		}
	}
	if !found && len(files) > 0 {
		fmt.Fprintf(os.Stderr, "seamgen: anchor for %s not found, emitting fallback\n", fn)
		files[0].tail = append(files[0].tail, header+" {\n"+fallback+"\n}")
	}
}

// redirectIdentCall rewrites calls name(...) to newName(...).
func redirectIdentCall(files []*file, name, newName string) {
	for _, f := range files {
		ast.Inspect(f.ast, func(n ast.Node) bool {
			c, ok := n.(*ast.CallExpr)
			if !ok {
				return true
			}
			if id, ok := c.Fun.(*ast.Ident); ok && id.Name == name {
				f.replace(id, newName)
			}
			return true
		})
	}
}

// redirectChain rewrites calls a.b.c() (no args) to newName().
func redirectChain(files []*file, a, b, c3, newName string) {
	for _, f := range files {
		ast.Inspect(f.ast, func(n ast.Node) bool {
			c, ok := n.(*ast.CallExpr)
			if !ok || len(c.Args) != 0 {
				return true
			}
			s, ok := c.Fun.(*ast.SelectorExpr)
			if !ok || s.Sel.Name != c3 {
				return true
			}
			in, ok := s.X.(*ast.SelectorExpr)
			if !ok || in.Sel.Name != b {
				return true
			}
			if id, ok := in.X.(*ast.Ident); ok && id.Name == a {
				f.replace(c, newName+"()")
			}
			return true
		})
	}
}

// goToCall rewrites `go func() {...}()` to fn(func() {...}).
func goToCall(files []*file, fn string) {
	for _, f := range files {
		ast.Inspect(f.ast, func(n ast.Node) bool {
			g, ok := n.(*ast.GoStmt)
			if !ok || len(g.Call.Args) != 0 {
				return true
			}
			fl, ok := g.Call.Fun.(*ast.FuncLit)
			if !ok {
				return true
			}
			f.edits = append(f.edits, edit{f.off(g.Pos()), f.off(fl.Pos()), fn + "("})
			f.edits = append(f.edits, edit{f.off(fl.End()), f.off(g.End()), ")"})
			return true
		})
	}
}

// insertAfterCallStmt inserts text after every statement that is a bare call of ident name.
func insertAfterCallStmt(files []*file, name, text string) {
	for _, f := range files {
		ast.Inspect(f.ast, func(n ast.Node) bool {
			es, ok := n.(*ast.ExprStmt)
			if !ok {
				return true
			}
			c, ok := es.X.(*ast.CallExpr)
			if !ok {
				return true
			}
			if id, ok := c.Fun.(*ast.Ident); ok && id.Name == name {
				f.insertAt(es.End(), "\n\t"+text)
			}
			return true
		})
	}
}

// genForkWrapper finds the child function (the one that calls vfork.RawVforkSyscall, whatever it is
// called and whatever its parameters are), redirects calls of it to a generated wrapper that first
// hands the stub kernel a closure re-entering it (the "child"), then runs it as the parent.
func genForkWrapper(files []*file) {
	for _, f := range files {
		for _, d := range f.ast.Decls {
			fd, ok := d.(*ast.FuncDecl)
			if !ok || fd.Body == nil || fd.Recv != nil {
				continue
			}
			found := false
			ast.Inspect(fd.Body, func(n ast.Node) bool {
				if s, ok := n.(*ast.SelectorExpr); ok && s.Sel.Name == "RawVforkSyscall" {
					found = true
				}
				return true
			})
			if !found {
				continue
			}
			name := fd.Name.Name
			var decl, args []string
			first := ""
			for _, p := range fd.Type.Params.List {
				t := f.text(p.Type.Pos(), p.Type.End())
				for _, n := range p.Names {
					decl = append(decl, n.Name+" "+t)
					args = append(args, n.Name)
					if first == "" {
						first = n.Name
					}
				}
			}
			res := ""
			if fd.Type.Results != nil {
				res = f.text(fd.Type.Results.Pos(), fd.Type.Results.End())
			}
			inner := append([]string{"vkChildRunner"}, args[1:]...)
			w := "func vkForkAndExec(" + strings.Join(decl, ", ") + ") " + res + " {\n" +
				"\tif vkOn {\n\t\tvk.BeginLaunch(" + first + ", func(vkChildRunner *Runner) {\n\t\t\t" + name + "(" + strings.Join(inner, ", ") + ")\n\t\t})\n\t}\n" +
				"\treturn " + name + "(" + strings.Join(args, ", ") + ")\n}"
			f.tail = append(f.tail, w)
			redirectIdentCallExcept(files, name, "vkForkAndExec")
			return
		}
	}
}

// redirectIdentCallExcept is redirectIdentCall that leaves calls inside the generated wrapper alone
// (the wrapper is appended as text and not part of the parsed AST, so every parsed call is redirected).
func redirectIdentCallExcept(files []*file, name, newName string) { redirectIdentCall(files, name, newName) }

// selectSeam hands the choice among the ready cases of a receive-only select to the simulator. In the named
// functions every such select
//
//	select { case <-A: X; case v := <-B: Y }
//
// becomes
//
//	if VSelHook == nil { <the select as it is> } else {
//		for { k := VSelHook(site, n); select { case <-vsimCh(k == 0, A): X; case v := <-vsimCh(k == 1, B): Y; default: continue }; break }
//	}
//
// The hook parks the goroutine until the simulator names the case to be tried; a case that is not ready falls
// to the default and the goroutine parks again. With no hook installed (world K) the original statement runs.
// The rule runs as a second pass over the already rewritten files, so the copy carries the other seams.
// Send cases are wrapped alike (vsimChS). Selects with a default or an unlabelled continue in a body, and selects
// nested in a case of a rewritten one, are left alone.
// terminates: the statement list ends in a return, or in a select all of whose cases do (and none breaks out)
func terminates(body []ast.Stmt) bool {
	if len(body) == 0 {
		return false
	}
	switch st := body[len(body)-1].(type) {
	case *ast.ReturnStmt:
		return true
	case *ast.SelectStmt:
		for _, cl := range st.Body.List {
			cc := cl.(*ast.CommClause)
			if !terminates(cc.Body) {
				return false
			}
			brk := false
			for _, x := range cc.Body {
				ast.Inspect(x, func(m ast.Node) bool {
					switch b := m.(type) {
					case *ast.ForStmt, *ast.RangeStmt, *ast.FuncLit, *ast.SwitchStmt, *ast.TypeSwitchStmt, *ast.SelectStmt:
						return false
					case *ast.BranchStmt:
						if b.Tok == token.BREAK && b.Label == nil {
							brk = true
						}
					}
					return true
				})
			}
			if brk {
				return false
			}
		}
		return true
	}
	return false
}

func selectSeam(files []*file, funcs map[string]bool) {
	for _, f := range files {
		for _, d := range f.ast.Decls {
			fd, ok := d.(*ast.FuncDecl)
			if !ok || fd.Body == nil || (funcs != nil && !funcs[fd.Name.Name]) {
				continue
			}
			idx := 0
			ast.Inspect(fd.Body, func(n ast.Node) bool {
				sel, ok := n.(*ast.SelectStmt)
				if !ok {
					return true
				}
				idx++
				type sub struct {
					a, b int
					t    string
				}
				var subs []sub
				base := f.off(sel.Pos())
				okAll, allReturn := true, true
				ncase := 0
				for _, cl := range sel.Body.List {
					cc := cl.(*ast.CommClause)
					var recv *ast.UnaryExpr
					var send *ast.SendStmt
					switch c := cc.Comm.(type) {
					case *ast.ExprStmt:
						recv, _ = c.X.(*ast.UnaryExpr)
					case *ast.AssignStmt:
						if len(c.Rhs) == 1 {
							recv, _ = c.Rhs[0].(*ast.UnaryExpr)
						}
					case *ast.SendStmt:
						send = c
					}
					if send != nil {
						subs = append(subs, sub{f.off(send.Chan.Pos()) - base, f.off(send.Chan.End()) - base,
							fmt.Sprintf("vsimChS(vselK%d == %d, %s)", idx, ncase, f.text(send.Chan.Pos(), send.Chan.End()))})
						ncase++
					} else if recv == nil || recv.Op != token.ARROW {
						okAll = false // default clause
						break
					} else {
						subs = append(subs, sub{f.off(recv.X.Pos()) - base, f.off(recv.X.End()) - base,
							fmt.Sprintf("vsimCh(vselK%d == %d, %s)", idx, ncase, f.text(recv.X.Pos(), recv.X.End()))})
						ncase++
					}
					if !terminates(cc.Body) {
						allReturn = false
					}
					for _, st := range cc.Body {
						ast.Inspect(st, func(m ast.Node) bool {
							switch b := m.(type) {
							case *ast.ForStmt, *ast.RangeStmt, *ast.FuncLit:
								return false // a continue in there is not ours
							case *ast.SelectStmt, *ast.SwitchStmt, *ast.TypeSwitchStmt:
								_ = b
							case *ast.BranchStmt:
								if b.Label == nil && b.Tok == token.CONTINUE {
									okAll = false
								}
								if b.Label == nil && b.Tok == token.BREAK {
									allReturn = false
								}
							}
							return true
						})
					}
				}
				if !okAll || ncase < 2 {
					return true
				}
				orig := f.text(sel.Pos(), sel.End())
				mod := orig
				sort.Slice(subs, func(i, j int) bool { return subs[i].a > subs[j].a })
				for _, e := range subs {
					mod = mod[:e.a] + e.t + mod[e.b:]
				}
				// the default clause goes in front of the closing brace of the select
				mod = mod[:len(mod)-1] + "default:\ncontinue\n}"
				tail := "\nbreak"
				if allReturn {
					tail = "" // every case returns: the loop must stay a terminating statement
				}
				site := fd.Name.Name + "#" + fmt.Sprint(idx)
				if r := recvType(fd); r != "" {
					site = r + "." + site
				}
				text := "if VSelHook == nil {\n" + orig + "\n} else {\nfor {\nvselK" + fmt.Sprint(idx) + " := VSelHook(\"" + site + "\", " + fmt.Sprint(ncase) + ")\n" + mod + tail + "\n}\n}"
				f.replace(sel, text)
				return false
			})
		}
	}
}

func main() {
	if len(os.Args) < 2 {
		fmt.Fprintln(os.Stderr, "usage: seamgen <scratch-repo-copy>")
		os.Exit(2)
	}
	root := os.Args[1]

	// --- pkg/unixsocket: transport seam
	us := load(filepath.Join(root, "pkg/unixsocket"))
	addField(us, "Socket", "\tSim SimConn // verif seam: in-memory transport when non-nil")
	prologue(us, "Socket", "SendMsg", "\tif $R.Sim != nil {\n\t\treturn $R.Sim.SimSend($P0, $P1)\n\t}")
	prologue(us, "Socket", "RecvMsg", "\tif $R.Sim != nil {\n\t\treturn $R.Sim.SimRecv($P0)\n\t}")
	prologue(us, "Socket", "SetPassCred", "\tif $R.Sim != nil {\n\t\treturn $R.Sim.SimSetPassCred($P0)\n\t}")

	// --- container: process seam, constructor tails, message observation
	ct := load(filepath.Join(root, "container"))
	redirectSel(ct, "syscall", "Kill", "vsimKill")
	redirectSel(ct, "syscall", "Wait4", "vsimWait4")
	methodCallInRecv(ct, "containerServer", "Start", "vsimStart")
	fieldMethodCall(ct, "container", "Kill", "vsimProcKill")
	fieldMethodCall(ct, "container", "Wait", "vsimProcWait")
	// the environment's mutex: a goroutine waiting for a sync.Mutex is not durably blocked for synctest, and with
	// the select seam a caller can be parked (by the simulator) while it holds the lock
	fieldMethodCall(ct, "container", "Lock", "&vsimMuLock")
	fieldMethodCall(ct, "container", "Unlock", "&vsimMuUnlock")
	prologue(ct, "containerServer", "serve", "\tvsimServeStart($R)")
	prologue(ct, "socket", "SendMsg", "\tvsimNoteSend($R, $P0)")
	prologue(ct, "socket", "RecvMsg", "\tdefer func() { vsimNoteRecv($R, $P0, $ERR) }()")
	extractTail(ct, "Builder", "startContainer", "container",
		"func vsimHostTail(ins *unixsocket.Socket) (*container, error)",
		"\tvar r struct{ Process *os.Process }\n\t_ = r",
		"\treturn nil, fmt.Errorf(\"verif: startContainer anchor missing\")")
	extractTail(ct, "", "Init", "containerServer",
		"func vsimServerTail(soc *unixsocket.Socket) (err error)",
		"",
		"\treturn fmt.Errorf(\"verif: Init anchor missing\")")

	// --- pkg/forkexec: stub-kernel seam (world S2 build only: that binary never forks for real)
	var fe []*file
	if len(os.Args) > 2 && os.Args[2] == "s2" {
		fe = load(filepath.Join(root, "pkg/forkexec"))
	} else {
		// world K build: only the child gate right after the clone
		gate := load(filepath.Join(root, "pkg/forkexec"))
		insertAfterCallStmt(gate, "afterForkInChild", "vChildGate()")
		for _, f := range gate {
			if err := f.flush(); err != nil {
				fmt.Fprintln(os.Stderr, "seamgen:", err)
				os.Exit(2)
			}
		}
	}
	redirectSel(fe, "syscall", "RawSyscall", "vkRawSyscall")
	redirectSel(fe, "syscall", "RawSyscall6", "vkRawSyscall6")
	redirectSel(fe, "syscall", "Syscall", "vkSyscall")
	redirectSel(fe, "vfork", "RawVforkSyscall", "vkVfork")
	redirectSel(fe, "syscall", "Socketpair", "vkSocketpair")
	redirectSel(fe, "unix", "Close", "vkClose")
	redirectSel(fe, "unix", "Open", "vkOpen")
	redirectSel(fe, "unix", "Write", "vkWrite")
	redirectSel(fe, "syscall", "Kill", "vkKill")
	redirectSel(fe, "syscall", "Wait4", "vkWait4")
	redirectChain(fe, "syscall", "ForkLock", "Lock", "vkForkLock")
	redirectChain(fe, "syscall", "ForkLock", "Unlock", "vkForkUnlock")
	redirectIdentCall(fe, "beforeFork", "vkBeforeFork")
	redirectIdentCall(fe, "afterFork", "vkAfterFork")
	redirectIdentCall(fe, "afterForkInChild", "vkAfterForkInChild")
	genForkWrapper(fe)
	goToCall(fe, "vkGo")

	// --- ptracer: hook between a tracee's stop and the tracer's next request
	pt := load(filepath.Join(root, "ptracer"))
	redirectSel(pt, "unix", "Wait4", "vhWait4")
	redirectSel(pt, "syscall", "Wait4", "vhWait4s")

	// --- pkg/cgroup: a simulator yield before every file-system call, seeded random names
	cg := load(filepath.Join(root, "pkg/cgroup"))
	redirectSel(cg, "os", "Stat", "vyStat")
	redirectSel(cg, "os", "Mkdir", "vyMkdir")
	redirectSel(cg, "os", "MkdirAll", "vyMkdirAll")
	redirectSel(cg, "os", "ReadFile", "vyReadFile")
	redirectSel(cg, "os", "WriteFile", "vyWriteFile")
	redirectSel(cg, "os", "OpenFile", "vyOpenFile")
	redirectSel(cg, "syscall", "Rmdir", "vyRmdir")
	redirectSel(cg, "rand", "Int32", "vyRand")

	for _, fs := range [][]*file{us, ct, fe, pt, cg} {
		for _, f := range fs {
			if err := f.flush(); err != nil {
				fmt.Fprintln(os.Stderr, "seamgen:", err)
				os.Exit(2)
			}
		}
	}

	// --- container, second pass (over the files as rewritten above): the simulator chooses among ready select cases
	ct2 := load(filepath.Join(root, "container"))
	selectSeam(ct2, nil)
	for _, f := range ct2 {
		if err := f.flush(); err != nil {
			fmt.Fprintln(os.Stderr, "seamgen:", err)
			os.Exit(2)
		}
	}
}
