module seamgen

go 1.23
