#!/usr/bin/env python3
# tools/covmerge.py <dir> [src-root]: merge Go cover profiles written by the workers of one or more checks
# (VERIF_COVER_DIR) and list, per library file, the statement blocks no check executed.
import sys,os,glob,collections
d=sys.argv[1]; root=sys.argv[2] if len(sys.argv)>2 else '/repo'
blocks=collections.defaultdict(int); stm={}
for f in glob.glob(os.path.join(d,'*.out*')):
    for l in open(f):
        if l.startswith('mode:'): continue
        try:
            loc,n,c=l.rsplit(' ',2)
        except ValueError: continue
        blocks[loc]+=int(c); stm[loc]=int(n)
per=collections.defaultdict(lambda:[0,0,[]])
for loc,c in blocks.items():
    fn,rng=loc.split(':',1)
    if '/zverif/' in fn or 'zz_verif' in fn: continue
    fn=fn.replace('github.com/criyle/go-sandbox/','')
    per[fn][1]+=stm[loc]
    if c>0: per[fn][0]+=stm[loc]
    else: per[fn][2].append(rng)
tot=[0,0]
for fn in sorted(per):
    c,t,miss=per[fn]; tot[0]+=c; tot[1]+=t
    print(f'{fn}: {c}/{t} statements ({100*c/max(t,1):.0f}%)')
    if '-v' in sys.argv:
        src=None
        try: src=open(os.path.join(root,fn)).read().split('\n')
        except OSError: pass
        for r in sorted(miss,key=lambda r:int(r.split('.')[0])):
            a=int(r.split('.')[0]); b=int(r.split(',')[1].split('.')[0])
            print(f'   uncovered {r}: '+(src[a-1].strip()[:110] if src and a<=len(src) else ''))
print(f'TOTAL {tot[0]}/{tot[1]} ({100*tot[0]/max(tot[1],1):.1f}%)')
