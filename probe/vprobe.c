/* vprobe: static, libc-free scripted probe program for world K.
 * It issues no incidental system calls: only what the script says, plus write(2) for reports
 * and exit_group(2). Built with: gcc -O1 -static -nostdlib -fno-stack-protector -fno-builtin.
 * x86-64 only. */
typedef unsigned long u64;
typedef long i64;
typedef unsigned int u32;
typedef unsigned char u8;

#define SYS_read 0
#define SYS_write 1
#define SYS_open 2
#define SYS_close 3
#define SYS_stat 4
#define SYS_fstat 5
#define SYS_utimensat 280
#define SYS_mmap 9
#define SYS_mprotect 10
#define SYS_rt_sigaction 13
#define SYS_rt_sigprocmask 14
#define SYS_pause 34
#define SYS_nanosleep 35
#define SYS_getpid 39
#define SYS_clone 56
#define SYS_fork 57
#define SYS_vfork 58
#ifndef SYS_execve
#define SYS_execve 59
#endif
#define SYS_exit 60
#define SYS_wait4 61
#define SYS_kill 62
#define SYS_uname 63
#define SYS_fcntl 72
#define SYS_getcwd 79
#define SYS_getppid 110
#define SYS_getpgid 121
#define SYS_setsid 112
#define SYS_setpgid 109
#define SYS_getgroups 115
#define SYS_getresuid 118
#define SYS_getresgid 120
#define SYS_getsid 124
#define SYS_capget 125
#define SYS_statfs 137
#define SYS_prctl 157
#define SYS_gettid 186
#define SYS_getdents64 217
#define SYS_clock_gettime 228
#define SYS_exit_group 231
#define SYS_tgkill 234
#define SYS_prlimit64 302

static i64 sc(i64 n, i64 a, i64 b, i64 c, i64 d, i64 e, i64 f) {
  i64 ret;
  register i64 r10 __asm__("r10") = d;
  register i64 r8 __asm__("r8") = e;
  register i64 r9 __asm__("r9") = f;
  __asm__ volatile("syscall" : "=a"(ret) : "a"(n), "D"(a), "S"(b), "d"(c), "r"(r10), "r"(r8), "r"(r9) : "rcx", "r11", "memory");
  return ret;
}

static int outfd = 1;
static char obuf[8192];
static int olen;

static void oflush(void) {
  int off = 0;
  while (off < olen) {
    i64 r = sc(SYS_write, outfd, (i64)(obuf + off), olen - off, 0, 0, 0);
    if (r <= 0) break;
    off += r;
  }
  olen = 0;
}
static void oc(char c) { if (olen >= (int)sizeof(obuf)) oflush(); obuf[olen++] = c; }
static void os(const char *s) { while (*s) oc(*s++); }
static void ou(u64 v) { char t[24]; int n = 0; if (!v) { oc('0'); return; } while (v) { t[n++] = '0' + v % 10; v /= 10; } while (n) oc(t[--n]); }
static void oi(i64 v) { if (v < 0) { oc('-'); ou((u64)(-v)); } else ou((u64)v); }
static void ox(u64 v) { char t[20]; int n = 0; os("0x"); if (!v) { oc('0'); return; } while (v) { int d = v & 15; t[n++] = d < 10 ? '0' + d : 'a' + d - 10; v >>= 4; } while (n) oc(t[--n]); }
static void nl(void) { oc('\n'); oflush(); }

static int seq(const char *a, const char *b) { while (*a && *a == *b) { a++; b++; } return *a == *b; }
static int slen(const char *s) { int n = 0; while (s[n]) n++; return n; }
static int pre(const char *s, const char *p) { while (*p) if (*s++ != *p++) return 0; return 1; }
static u64 num(const char *s) {
  u64 v = 0; int neg = 0;
  if (*s == '-') { neg = 1; s++; }
  if (s[0] == '0' && (s[1] == 'x' || s[1] == 'X')) {
    s += 2;
    while (*s) { char c = *s++; int d = c >= '0' && c <= '9' ? c - '0' : c >= 'a' && c <= 'f' ? c - 'a' + 10 : c >= 'A' && c <= 'F' ? c - 'A' + 10 : 0; v = v * 16 + d; }
  } else while (*s >= '0' && *s <= '9') v = v * 10 + (*s++ - '0');
  return neg ? (u64)(-(i64)v) : v;
}

static char scratch[8192];
static i64 saved_mtime[2];

/* place a byte block so that it ends exactly at an unmapped page */
static char *edge_page(void) {
  char *p = (char *)sc(SYS_mmap, 0, 16 * 4096, 3, 0x22, -1, 0);
  if ((i64)p < 0 && (i64)p > -4096) return 0;
  sc(SYS_mprotect, (i64)(p + 15 * 4096), 4096, 0, 0, 0, 0);
  return p + 15 * 4096; /* first unmapped byte; 15 pages before it are writable */
}

static u64 argval(const char *a) {
  if (seq(a, "n")) return 0;
  if (seq(a, "k")) return 0xffff800000000000UL;
  if (seq(a, "o")) return 1;
  if (seq(a, "buf")) return (u64)scratch;
  if (pre(a, "s:")) return (u64)(a + 2);
  if (pre(a, "u:")) { /* unterminated block of given length ending at an unmapped page */
    u64 n = num(a + 2); char *e = edge_page(); if (!e) return 0;
    for (u64 i = 1; i <= n; i++) e[-(i64)i] = 'a' + (i % 26 == 0 ? 1 : i % 26);
    return (u64)(e - n);
  }
  if (pre(a, "p:")) { /* string whose NUL is the last mapped byte */
    int n = slen(a + 2); char *e = edge_page(); if (!e) return 0;
    for (int i = 0; i <= n; i++) e[-(n + 1) + i] = a[2 + i];
    return (u64)(e - (n + 1));
  }
  if (pre(a, "x:")) { /* string without NUL running into the unmapped page */
    int n = slen(a + 2); char *e = edge_page(); if (!e) return 0;
    for (int i = 0; i < n; i++) e[-n + i] = a[2 + i];
    return (u64)(e - n);
  }
  if (pre(a, "c:")) { /* c:K:STR -> STR placed so that its first K bytes end a page and the rest starts the next (both mapped) */
    u64 k = num(a + 2); const char *q = a + 2; while (*q && *q != ':') q++; if (*q == ':') q++;
    char *e = edge_page(); if (!e) return 0; char *b = e - 8 * 4096 - k; int i = 0;
    while (q[i]) { b[i] = q[i]; i++; }
    b[i] = 0; return (u64)b;
  }
  if (pre(a, "h:")) { /* struct open_how {flags, mode, resolve} */
    static u64 how[3]; how[0] = num(a + 2); how[1] = 0; how[2] = 0; return (u64)how;
  }
  if (pre(a, "l:")) { /* long string: l:LEN:PREFIX -> PREFIX followed by 'z' up to LEN bytes, NUL-terminated */
    u64 n = num(a + 2); const char *q = a + 2; while (*q && *q != ':') q++; if (*q == ':') q++;
    char *e = edge_page(); if (!e) return 0; char *b = e - 14 * 4096; u64 i = 0;
    while (*q && i < n) b[i++] = *q++;
    while (i < n) b[i++] = 'z';
    b[i] = 0; return (u64)b;
  }
  return num(a);
}

struct kstat { u64 dev, ino, nlink; u32 mode, uid, gid, pad; u64 rdev; i64 size, blksize, blocks; u64 t[6]; i64 unused[3]; };

static int arity(const char *op) {
  static const char *a0[] = {"join", "dfl", "killlast", "state", "wait", "pause", "ignore", "block", "setsid", "flush", "segv", 0};
  static const char *a1[] = {"exit", "raise", "fds", "sleep", "burn", "alloc", "fork", "vfork", "spawn", "thread", "daemon", "out", "pid", "ls", "statfs", "mods", "kill", "threadraise", "cat", "stack", "savemtime", "restoremtime", 0};
  static const char *a2[] = {"write", "grow", "rlim", 0};
  static const char *a3[] = {"rv", 0};
  for (int i = 0; a0[i]; i++) if (seq(op, a0[i])) return 0;
  for (int i = 0; a1[i]; i++) if (seq(op, a1[i])) return 1;
  for (int i = 0; a2[i]; i++) if (seq(op, a2[i])) return 2;
  for (int i = 0; a3[i]; i++) if (seq(op, a3[i])) return 3;
  if (seq(op, "sys")) return 7;
  return 0;
}

static char **av;
static char **envp0;
static int ac;
static i64 lastpid;
static volatile int live_threads;

static int skip(int i, int k) { /* index after k ops starting at i */
  while (k-- > 0 && i < ac) {
    const char *op = av[i];
    int n = arity(op);
    if (seq(op, "fork") || seq(op, "vfork") || seq(op, "spawn") || seq(op, "thread") || seq(op, "daemon")) {
      int inner = (int)num(av[i + 1]);
      i = skip(i + 2, inner);
      continue;
    }
    i += 1 + n;
  }
  return i;
}

static void run(int i, int end);

static int pidfd = -1;
static void report_pid(void) {
  if (pidfd < 0) return;
  int keep = outfd; oflush(); outfd = pidfd; os("pid "); oi(sc(SYS_getpid, 0, 0, 0, 0, 0, 0)); nl(); oflush(); outfd = keep;
}

static void msleep(u64 ms) { i64 ts[2] = {(i64)(ms / 1000), (i64)(ms % 1000) * 1000000}; sc(SYS_nanosleep, (i64)ts, 0, 0, 0, 0, 0); }

static void report_state(void) {
  u32 r, e, s;
  sc(SYS_getresuid, (i64)&r, (i64)&e, (i64)&s, 0, 0, 0); os("uid "); ou(r); oc(' '); ou(e); oc(' '); ou(s); nl();
  sc(SYS_getresgid, (i64)&r, (i64)&e, (i64)&s, 0, 0, 0); os("gid "); ou(r); oc(' '); ou(e); oc(' '); ou(s); nl();
  u32 g[64]; i64 ng = sc(SYS_getgroups, 64, (i64)g, 0, 0, 0, 0);
  os("groups "); oi(ng); for (i64 k = 0; k < ng; k++) { oc(' '); ou(g[k]); } nl();
  u32 hdr[2] = {0x20080522, 0}; u32 d[6] = {0};
  i64 cr = sc(SYS_capget, (i64)hdr, (i64)d, 0, 0, 0, 0);
  os("caps "); oi(cr); oc(' '); ox(((u64)d[3] << 32) | d[0]); oc(' '); ox(((u64)d[4] << 32) | d[1]); oc(' '); ox(((u64)d[5] << 32) | d[2]); nl();
  os("securebits "); oi(sc(SYS_prctl, 27, 0, 0, 0, 0, 0)); nl();
  os("nnp "); oi(sc(SYS_prctl, 39, 0, 0, 0, 0, 0)); nl();
  os("seccomp "); oi(sc(SYS_prctl, 21, 0, 0, 0, 0, 0)); nl();
  os("ambient "); { int any = 0; for (int c = 0; c < 41; c++) if (sc(SYS_prctl, 47, 1, c, 0, 0, 0) == 1) any = 1; oi(any); } nl();
  i64 pid = sc(SYS_getpid, 0, 0, 0, 0, 0, 0);
  os("pid "); oi(pid); os(" ppid "); oi(sc(SYS_getppid, 0, 0, 0, 0, 0, 0)); os(" sid "); oi(sc(SYS_getsid, 0, 0, 0, 0, 0, 0)); os(" pgid "); oi(sc(SYS_getpgid, 0, 0, 0, 0, 0, 0)); nl();
  i64 n = sc(SYS_getcwd, (i64)scratch, 4096, 0, 0, 0, 0);
  os("cwd "); if (n > 0) os(scratch); else oi(n); nl();
  char un[6 * 65];
  sc(SYS_uname, (i64)un, 0, 0, 0, 0, 0);
  os("host "); os(un + 65); nl(); os("domain "); os(un + 5 * 65); nl();
  for (int res = 0; res < 16; res++) { u64 l[2] = {0, 0}; i64 rr = sc(SYS_prlimit64, 0, res, 0, (i64)l, 0, 0); os("rlimit "); oi(res); oc(' '); if (rr < 0) { os("err "); oi(rr); } else { ou(l[0]); oc(' '); ou(l[1]); } nl(); }
}

static void report_fds(int n) {
  for (int fd = 0; fd < n; fd++) {
    struct kstat st;
    i64 r = sc(SYS_fstat, fd, (i64)&st, 0, 0, 0, 0);
    os("fd "); oi(fd); oc(' ');
    if (r < 0) { os("closed"); nl(); continue; }
    ou(st.dev); oc(' '); ou(st.ino); oc(' '); ox(st.mode); oc(' ');
    oi(sc(SYS_fcntl, fd, 1, 0, 0, 0, 0)); oc(' '); ox((u64)sc(SYS_fcntl, fd, 3, 0, 0, 0, 0)); nl();
  }
}

static void do_ls(const char *path) {
  i64 fd = sc(SYS_open, (i64)path, 0x10000 /*O_DIRECTORY*/, 0, 0, 0, 0);
  os("ls "); os(path); oc(' ');
  if (fd < 0) { os("err "); oi(fd); nl(); return; }
  os("ok"); nl();
  for (;;) {
    i64 n = sc(SYS_getdents64, fd, (i64)scratch, sizeof(scratch), 0, 0, 0);
    if (n <= 0) break;
    for (i64 off = 0; off < n;) {
      unsigned short reclen = *(unsigned short *)(scratch + off + 16);
      u8 type = *(u8 *)(scratch + off + 18);
      const char *name = scratch + off + 19;
      if (!seq(name, ".") && !seq(name, "..")) { os("ent "); ou(type); oc(' '); os(name); nl(); }
      off += reclen;
    }
  }
  sc(SYS_close, fd, 0, 0, 0, 0, 0);
  os("endls"); nl();
}

/* battery of modifications below a directory: reports the errno of each */
static void do_mods(const char *dir) {
  char p[512]; int n = slen(dir); if (n > 400) return;
  for (int i = 0; i < n; i++) p[i] = dir[i];
  const char *names[] = {"/vp_new", "/vp_dir", 0};
  os("mods "); os(dir);
  int k = n; const char *s = names[0]; while (*s) p[k++] = *s++; p[k] = 0;
  i64 r = sc(SYS_open, (i64)p, 0x41 /*O_WRONLY|O_CREAT*/, 0644, 0, 0, 0);
  os(" creat="); oi(r < 0 ? r : 0);
  if (r >= 0) { i64 w = sc(SYS_write, r, (i64)"x", 1, 0, 0, 0); os(" write="); oi(w < 0 ? w : 0); sc(SYS_close, r, 0, 0, 0, 0, 0); r = sc(87 /*unlink*/, (i64)p, 0, 0, 0, 0, 0); os(" unlink="); oi(r); }
  k = n; s = names[1]; while (*s) p[k++] = *s++; p[k] = 0;
  r = sc(83 /*mkdir*/, (i64)p, 0755, 0, 0, 0, 0); os(" mkdir="); oi(r);
  if (r >= 0) sc(84 /*rmdir*/, (i64)p, 0, 0, 0, 0, 0);
  r = sc(90 /*chmod*/, (i64)dir, 0755, 0, 0, 0, 0); os(" chmod="); oi(r);
  nl();
}

static void thread_exit(void) { for (;;) sc(SYS_exit, 0, 0, 0, 0, 0, 0); }

struct targ { int i, end; };
static void thread_main(struct targ *t) { run(t->i, t->end); oflush(); __sync_fetch_and_sub(&live_threads, 1); thread_exit(); }

static i64 spawn_thread(int i, int end) {
  char *stk = (char *)sc(SYS_mmap, 0, 256 * 1024, 3, 0x22, -1, 0);
  if ((i64)stk < 0 && (i64)stk > -4096) return (i64)stk;
  struct targ *t = (struct targ *)stk; t->i = i; t->end = end;
  u64 *sp = (u64 *)(stk + 256 * 1024 - 64);
  sp[0] = (u64)thread_main; sp[1] = (u64)t;
  i64 ret;
  i64 flags = 0x100 | 0x200 | 0x400 | 0x800 | 0x10000 | 0x40000; /* VM FS FILES SIGHAND THREAD SYSVSEM */
  __asm__ volatile(
      "syscall\n"
      "test %%rax,%%rax\n"
      "jnz 1f\n"
      "pop %%rax\n"
      "pop %%rdi\n"
      "call *%%rax\n"
      "1:\n"
      : "=a"(ret) : "a"(SYS_clone), "D"(flags), "S"(sp), "d"(0), "r"(0L) : "rcx", "r11", "memory");
  return ret;
}

static void run(int i, int end) {
  while (i < end) {
    const char *op = av[i];
    int n = arity(op);
    const char *a1 = i + 1 < ac ? av[i + 1] : "";
    const char *a2 = i + 2 < ac ? av[i + 2] : "";
    const char *a3 = i + 3 < ac ? av[i + 3] : "";
    if (seq(op, "spawn")) { /* posix_spawn style: vfork, and the child at once execs this program again with the inner ops as its script */
      int inner = (int)num(a1), body = i + 2, after = skip(body, inner);
      oflush();
      static char *nargv[64]; int k = 0; nargv[k++] = av[0];
      for (int q = body; q < after && k < 62; q++) nargv[k++] = av[q];
      nargv[k] = 0;
      i64 pid = sc(SYS_vfork, 0, 0, 0, 0, 0, 0);
      if (pid == 0) { sc(SYS_execve, (i64)av[0], (i64)nargv, (i64)envp0, 0, 0, 0); sc(SYS_exit_group, 127, 0, 0, 0, 0, 0); }
      lastpid = pid; os("spawn "); oi(pid); nl();
      i = after; continue;
    }
    if (seq(op, "fork") || seq(op, "vfork") || seq(op, "thread") || seq(op, "daemon")) {
      int inner = (int)num(a1), body = i + 2, after = skip(body, inner);
      oflush();
      if (seq(op, "thread")) { __sync_fetch_and_add(&live_threads, 1); i64 r = spawn_thread(body, after); if (r < 0) __sync_fetch_and_sub(&live_threads, 1); os("thread "); oi(r); nl(); i = after; continue; }
      i64 pid = sc(seq(op, "vfork") ? SYS_vfork : SYS_fork, 0, 0, 0, 0, 0, 0);
      if (pid == 0) {
        if (seq(op, "daemon")) {
          sc(SYS_setsid, 0, 0, 0, 0, 0, 0);
          if (sc(SYS_fork, 0, 0, 0, 0, 0, 0) != 0) sc(SYS_exit_group, 0, 0, 0, 0, 0, 0);
        }
        report_pid();
        run(body, after); oflush(); sc(SYS_exit_group, 0, 0, 0, 0, 0, 0);
      }
      lastpid = pid;
      os(op); oc(' '); oi(pid); nl();
      i = after; continue;
    }
    if (seq(op, "out")) { oflush(); outfd = (int)num(a1); }
    else if (seq(op, "exit")) { oflush(); sc(SYS_exit_group, (i64)num(a1), 0, 0, 0, 0, 0); }
    else if (seq(op, "raise")) { oflush(); i64 r = sc(SYS_kill, sc(SYS_getpid, 0, 0, 0, 0, 0, 0), (i64)num(a1), 0, 0, 0, 0); os("raise "); oi(r); nl(); }
    else if (seq(op, "threadraise")) { oflush(); i64 r = sc(SYS_tgkill, sc(SYS_getpid, 0, 0, 0, 0, 0, 0), sc(SYS_gettid, 0, 0, 0, 0, 0, 0), (i64)num(a1), 0, 0, 0); os("raise "); oi(r); nl(); }
    else if (seq(op, "kill")) { i64 r = sc(SYS_kill, (i64)num(a1), 9, 0, 0, 0, 0); os("kill "); oi(r); nl(); }
    else if (seq(op, "killlast")) { i64 r = lastpid > 0 ? sc(SYS_kill, lastpid, 9, 0, 0, 0, 0) : -3; os("killlast "); oi(r); nl(); }
    else if (seq(op, "segv")) { oflush(); *(volatile int *)8 = 1; }
    else if (seq(op, "state")) report_state();
    else if (seq(op, "fds")) report_fds((int)num(a1));
    else if (seq(op, "sleep")) msleep(num(a1));
    else if (seq(op, "pause")) { oflush(); for (;;) sc(SYS_pause, 0, 0, 0, 0, 0, 0); }
    else if (seq(op, "burn")) {
      u64 ms = num(a1); i64 t0[2], t1[2]; sc(SYS_clock_gettime, 2, (i64)t0, 0, 0, 0, 0);
      volatile u64 x = 0;
      for (;;) { for (int q = 0; q < 100000; q++) x += q; sc(SYS_clock_gettime, 2, (i64)t1, 0, 0, 0, 0); if ((u64)((t1[0] - t0[0]) * 1000 + (t1[1] - t0[1]) / 1000000) >= ms) break; }
      os("burned"); nl();
    }
    else if (seq(op, "alloc")) {
      u64 mb = num(a1); char *p = (char *)sc(SYS_mmap, 0, mb << 20, 3, 0x22, -1, 0);
      os("alloc ");
      if ((i64)p < 0 && (i64)p > -4096) { oi((i64)p); } else { for (u64 o = 0; o < (mb << 20); o += 4096) p[o] = 1; os("ok"); }
      nl();
    }
    else if (seq(op, "stack")) { /* recurse-free stack touch: alloca-like via loop on a big local is not possible; touch below rsp */
      u64 kb = num(a1); volatile char *sp; __asm__ volatile("mov %%rsp,%0" : "=r"(sp));
      for (u64 o = 4096; o < (kb << 10); o += 4096) sp[-(i64)o] = 1;
      os("stack ok"); nl();
    }
    else if (seq(op, "write")) {
      int fd = (int)num(a1); u64 total = num(a2), done = 0; i64 r = 0;
      for (int q = 0; q < 4096; q++) scratch[q] = 'A' + q % 26;
      while (done < total) { u64 c = total - done > 4096 ? 4096 : total - done; r = sc(SYS_write, fd, (i64)scratch, (i64)c, 0, 0, 0); if (r <= 0) break; done += (u64)r; }
      os("wrote "); ou(done); oc(' '); oi(r < 0 ? r : 0); nl();
    }
    else if (seq(op, "grow")) {
      i64 fd = sc(SYS_open, (i64)a1, 0x241, 0644, 0, 0, 0); u64 total = num(a2), done = 0; i64 r = fd;
      if (fd >= 0) { while (done < total) { u64 c = total - done > 4096 ? 4096 : total - done; r = sc(SYS_write, fd, (i64)scratch, (i64)c, 0, 0, 0); if (r <= 0) break; done += (u64)r; } }
      os("grew "); ou(done); oc(' '); oi(r < 0 ? r : 0); nl();
    }
    else if (seq(op, "rlim")) { u64 l[2] = {0, 0}; i64 r = sc(SYS_prlimit64, 0, (i64)num(a1), 0, (i64)l, 0, 0); (void)a2; os("rlim "); oi(r); oc(' '); ou(l[0]); oc(' '); ou(l[1]); nl(); }
    else if (seq(op, "ignore")) { u64 sa[4] = {1 /*SIG_IGN*/, 0, 0, 0}; for (int s = 1; s <= 64; s++) sc(SYS_rt_sigaction, s, (i64)sa, 0, 8, 0, 0); }
    else if (seq(op, "join")) { for (int q = 0; q < 20000 && live_threads > 0; q++) msleep(1); }
    else if (seq(op, "dfl")) { u64 sa[4] = {0 /*SIG_DFL*/, 0, 0, 0}; for (int s = 1; s <= 64; s++) sc(SYS_rt_sigaction, s, (i64)sa, 0, 8, 0, 0); }
    else if (seq(op, "block")) { u64 m = ~0UL; sc(SYS_rt_sigprocmask, 0, (i64)&m, 0, 8, 0, 0); }
    else if (seq(op, "setsid")) { os("setsid "); oi(sc(SYS_setsid, 0, 0, 0, 0, 0, 0)); nl(); }
    else if (seq(op, "pid")) { pidfd = (int)num(a1); report_pid(); } /* sticky: every process created from now on reports too */
    else if (seq(op, "rv")) { /* rendezvous: announce on fd a1, wait for one byte on fd a2 */
      int keep = outfd; oflush(); outfd = (int)num(a1); os("rv "); os(a3); oc(' '); oi(sc(SYS_getpid, 0, 0, 0, 0, 0, 0)); nl(); outfd = keep;
      char c; i64 r; do { r = sc(SYS_read, (i64)num(a2), (i64)&c, 1, 0, 0, 0); } while (r == -4);
    }
    else if (seq(op, "ls")) do_ls(a1);
    else if (seq(op, "mods")) do_mods(a1);
    else if (seq(op, "statfs")) { u64 b[16] = {0}; i64 r = sc(SYS_statfs, (i64)a1, (i64)b, 0, 0, 0, 0); os("statfs "); os(a1); oc(' '); oi(r); oc(' '); ox(b[0]); oc(' '); ox(b[10]); nl(); }
    else if (seq(op, "cat")) {
      i64 fd = sc(SYS_open, (i64)a1, 0, 0, 0, 0, 0); os("cat "); os(a1); oc(' ');
      if (fd < 0) { oi(fd); nl(); } else { i64 r = sc(SYS_read, fd, (i64)scratch, 256, 0, 0, 0); oi(r); nl(); sc(SYS_close, fd, 0, 0, 0, 0, 0); }
    }
    else if (seq(op, "savemtime")) { /* remember the modification time of a path ... */
      struct kstat st; i64 r = sc(SYS_stat, (i64)a1, (i64)&st, 0, 0, 0, 0); saved_mtime[0] = (i64)st.t[2]; saved_mtime[1] = (i64)st.t[3]; os("savemtime "); oi(r); nl();
    }
    else if (seq(op, "restoremtime")) { /* ... and put it back later (utimensat: the owner of a file controls its mtime) */
      i64 ts[4] = {0, 0x3ffffffe /*UTIME_OMIT*/, saved_mtime[0], saved_mtime[1]};
      os("restoremtime "); oi(sc(SYS_utimensat, -100, (i64)a1, (i64)ts, 0, 0, 0)); nl();
    }
    else if (seq(op, "wait")) { for (;;) { i64 r = sc(SYS_wait4, -1, 0, 0x40000000 /*__WALL*/, 0, 0, 0); if (r == -4) continue; if (r < 0) break; } os("waited"); nl(); }
    else if (seq(op, "sys")) {
      u64 a[7]; for (int q = 0; q < 7; q++) a[q] = argval(i + 1 + q < ac ? av[i + 1 + q] : "0");
      oflush();
      i64 r = sc((i64)a[0], (i64)a[1], (i64)a[2], (i64)a[3], (i64)a[4], (i64)a[5], (i64)a[6]);
      os("ret "); ou(a[0]); oc(' '); oi(r); nl();
    }
    else if (seq(op, "flush")) oflush();
    i += 1 + n;
  }
}

void vmain(u64 *sp) {
  ac = (int)sp[0];
  av = (char **)(sp + 1);
  envp0 = av + ac + 1;
  run(1, ac);
  oflush();
  sc(SYS_exit_group, 0, 0, 0, 0, 0, 0);
}

__asm__(".globl _start\n_start:\n  mov %rsp,%rdi\n  and $-16,%rsp\n  call vmain\n  hlt\n");
